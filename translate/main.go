// Translator: re-reads /repo's Go source on every run and regenerates the parts of the Coq model
// that are derived from it: the wire shape of every EncodeTo/DecodeFrom pair, the struct field
// lists, the field paths each encoder writes, selected constants.
//
// It recognises a closed set of statement shapes and never guesses: anything else makes the method
// "opaque" (HOpaque with a reason), and opaque methods must be on the hand-modelled list kept in
// coq/Codec/Irregular.v (checked there by a kernel-computed obligation).
package main

import (
	"bytes"
	"crypto/sha256"
	"encoding/hex"
	"encoding/json"
	"flag"
	"fmt"
	"go/ast"
	"go/parser"
	"go/printer"
	"go/token"
	"os"
	"path/filepath"
	"sort"
	"strconv"
	"strings"
)

var fset = token.NewFileSet()

type pkgInfo struct {
	dir   string                       // "types", "rhp/v4"
	name  string                       // package identifier used by importers ("types", "rhp")
	types map[string]ast.Expr          // named type -> underlying type expression
	meths map[string]map[string]*ast.FuncDecl // type -> method name -> decl
	imports map[string]string          // per package: import alias -> pkg dir (only repo packages)
	consts map[string]string
}

var pkgs = map[string]*pkgInfo{}
var pkgDirs = []string{"types", "consensus", "gateway", "rhp/v2", "rhp/v3", "rhp/v4"}

func src(n ast.Node) string {
	var b bytes.Buffer
	printer.Fprint(&b, fset, n)
	return strings.Join(strings.Fields(b.String()), " ")
}

// a resolved type: package dir + expression
type rtype struct {
	pkg string
	e   ast.Expr
}

func (t rtype) named() (string, bool) { // qualified name if the type is a named type
	switch x := t.e.(type) {
	case *ast.Ident:
		if _, ok := pkgs[t.pkg].types[x.Name]; ok {
			return t.pkg + "." + x.Name, true
		}
	case *ast.SelectorExpr:
		if id, ok := x.X.(*ast.Ident); ok {
			if dir, ok := pkgs[t.pkg].imports[id.Name]; ok {
				if _, ok := pkgs[dir].types[x.Sel.Name]; ok {
					return dir + "." + x.Sel.Name, true
				}
			}
		}
	}
	return "", false
}

func splitQ(q string) (string, string) {
	i := strings.LastIndex(q, ".")
	return q[:i], q[i+1:]
}

func underlying(t rtype) rtype {
	for i := 0; i < 20; i++ {
		q, ok := t.named()
		if !ok {
			return t
		}
		p, n := splitQ(q)
		t = rtype{p, pkgs[p].types[n]}
	}
	return t
}

func deref(t rtype) rtype {
	if s, ok := t.e.(*ast.StarExpr); ok {
		return rtype{t.pkg, s.X}
	}
	return t
}

// field lookup with embedded-struct promotion
func fieldType(t rtype, name string) (rtype, bool) {
	u := underlying(deref(t))
	st, ok := u.e.(*ast.StructType)
	if !ok {
		return rtype{}, false
	}
	for _, f := range st.Fields.List {
		for _, n := range f.Names {
			if n.Name == name {
				return rtype{u.pkg, f.Type}, true
			}
		}
		if len(f.Names) == 0 { // embedded
			et := rtype{u.pkg, f.Type}
			en := src(f.Type)
			if i := strings.LastIndex(en, "."); i >= 0 {
				en = en[i+1:]
			}
			en = strings.TrimPrefix(en, "*")
			if en == name {
				return et, true
			}
		}
	}
	for _, f := range st.Fields.List {
		if len(f.Names) == 0 {
			if ft, ok := fieldType(rtype{u.pkg, f.Type}, name); ok {
				return ft, true
			}
		}
	}
	return rtype{}, false
}

type env map[string]rtype

func typeOf(pkg string, e ast.Expr, en env) (rtype, bool) {
	switch x := e.(type) {
	case *ast.ParenExpr:
		return typeOf(pkg, x.X, en)
	case *ast.Ident:
		t, ok := en[x.Name]
		return t, ok
	case *ast.SelectorExpr:
		bt, ok := typeOf(pkg, x.X, en)
		if !ok {
			return rtype{}, false
		}
		return fieldType(bt, x.Sel.Name)
	case *ast.UnaryExpr:
		if x.Op == token.AND {
			t, ok := typeOf(pkg, x.X, en)
			if !ok {
				return rtype{}, false
			}
			return rtype{t.pkg, &ast.StarExpr{X: t.e}}, true
		}
	case *ast.StarExpr:
		t, ok := typeOf(pkg, x.X, en)
		if !ok {
			return rtype{}, false
		}
		return deref(t), true
	case *ast.CompositeLit:
		return rtype{pkg, x.Type}, true
	case *ast.CallExpr: // conversion T(x) or (*T)(&x)
		if len(x.Args) == 1 {
			f := x.Fun
			if p, ok := f.(*ast.ParenExpr); ok {
				f = p.X
			}
			t := rtype{pkg, f}
			if _, ok := t.named(); ok {
				return t, true
			}
			if s, ok := f.(*ast.StarExpr); ok {
				if _, ok := (rtype{pkg, s.X}).named(); ok {
					return t, true
				}
			}
		}
	case *ast.IndexExpr:
		t, ok := typeOf(pkg, x.X, en)
		if !ok {
			return rtype{}, false
		}
		u := underlying(deref(t))
		if a, ok := u.e.(*ast.ArrayType); ok {
			return rtype{u.pkg, a.Elt}, true
		}
	}
	return rtype{}, false
}

// shape terms
type shape struct {
	K    string   `json:"k"`              // u8 u64 bool time bytes string fixed ref slice ptr seq opaque
	N    int      `json:"n,omitempty"`    // fixed length
	Ref  string   `json:"ref,omitempty"`  // qualified type
	Sub  []*shape `json:"sub,omitempty"`
	Path string   `json:"path,omitempty"` // source expression written/read
	Why  string   `json:"why,omitempty"`
	Var  string   `json:"var,omitempty"`  // loop variable (loops), so that paths can be qualified
}

func opaque(why string) *shape { return &shape{K: "opaque", Why: why} }

func arrayLen(t rtype) (int, bool) {
	u := underlying(deref(t))
	if a, ok := u.e.(*ast.ArrayType); ok && a.Len != nil {
		if bl, ok := a.Len.(*ast.BasicLit); ok {
			n, err := strconv.Atoi(bl.Value)
			return n, err == nil
		}
		if id, ok := a.Len.(*ast.Ident); ok {
			if v, ok := pkgs[u.pkg].consts[id.Name]; ok {
				n, err := strconv.Atoi(v)
				return n, err == nil
			}
		}
	}
	return 0, false
}

func hasMethod(q, m string) bool {
	p, n := splitQ(q)
	_, ok := pkgs[p].meths[n][m]
	return ok
}

func refShape(t rtype, path string, enc bool) *shape {
	t = deref(t)
	q, ok := t.named()
	if !ok {
		return opaque("codec call on unnamed type " + src(t.e))
	}
	m := "DecodeFrom"
	if enc {
		m = "EncodeTo"
	}
	if !hasMethod(q, m) && !hasMethod(q, strings.ToLower(m[:1])+m[1:]) {
		return opaque("no " + m + " on " + q)
	}
	return &shape{K: "ref", Ref: q, Path: path}
}

func elemType(t rtype) (rtype, bool) {
	u := underlying(deref(t))
	if a, ok := u.e.(*ast.ArrayType); ok && a.Len == nil {
		return rtype{u.pkg, a.Elt}, true
	}
	return rtype{}, false
}

func ptrElem(t rtype) (rtype, bool) {
	u := t
	if s, ok := u.e.(*ast.StarExpr); ok {
		return rtype{u.pkg, s.X}, true
	}
	uu := underlying(u)
	if s, ok := uu.e.(*ast.StarExpr); ok {
		return rtype{uu.pkg, s.X}, true
	}
	return rtype{}, false
}

var primW = map[string]string{"WriteUint8": "u8", "WriteUint64": "u64", "WriteBool": "bool", "WriteTime": "time", "WriteBytes": "bytes", "WriteString": "string"}
var primR = map[string]string{"ReadUint8": "u8", "ReadUint64": "u64", "ReadBool": "bool", "ReadTime": "time", "ReadBytes": "bytes", "ReadString": "string"}

func stripAddr(e ast.Expr) ast.Expr {
	if u, ok := e.(*ast.UnaryExpr); ok && u.Op == token.AND {
		return u.X
	}
	return e
}

func genericName(f ast.Expr) (name string, typeArgs []ast.Expr) {
	switch x := f.(type) {
	case *ast.IndexExpr:
		n, _ := genericName(x.X)
		return n, []ast.Expr{x.Index}
	case *ast.IndexListExpr:
		n, _ := genericName(x.X)
		return n, x.Indices
	case *ast.Ident:
		return x.Name, nil
	case *ast.SelectorExpr:
		return x.Sel.Name, nil
	}
	return "", nil
}

// element shape from a function argument such as (*Encoder).WriteUint64 or a func literal
func fnShape(pkg string, fn ast.Expr, en env, elem rtype, enc bool, cvar string) *shape {
	s := src(fn)
	for k, v := range primW {
		if s == "(*Encoder)."+k || s == "(*types.Encoder)."+k {
			return &shape{K: v}
		}
	}
	for k, v := range primR {
		if s == "(*Decoder)."+k || s == "(*types.Decoder)."+k {
			return &shape{K: v}
		}
	}
	if fl, ok := fn.(*ast.FuncLit); ok {
		en2 := env{}
		for k, v := range en {
			en2[k] = v
		}
		params := fl.Type.Params.List
		cv := cvar
		if len(params) >= 1 && len(params[0].Names) == 1 {
			cv = params[0].Names[0].Name
		}
		if enc && len(params) == 2 && len(params[1].Names) == 1 {
			en2[params[1].Names[0].Name] = rtype{pkg, params[1].Type}
		}
		return seqOf(translateBody(pkg, fl.Body.List, en2, enc, cv))
	}
	return opaque("element function " + s)
}

func seqOf(items []*shape) *shape {
	if len(items) == 1 {
		return items[0]
	}
	return &shape{K: "seq", Sub: items}
}

func translateBody(pkg string, stmts []ast.Stmt, en env, enc bool, cvar string) []*shape {
	var out []*shape
	for _, st := range stmts {
		out = append(out, translateStmt(pkg, st, en, enc, cvar)...)
	}
	return out
}

func isCodecVar(e ast.Expr, cvar string) bool {
	id, ok := e.(*ast.Ident)
	return ok && id.Name == cvar
}

func translateCall(pkg string, call *ast.CallExpr, en env, enc bool, cvar string, lhs string) []*shape {
	// e.WriteX(arg) / d.ReadX() / e.Write(x[:]) / d.Read(x[:])
	if sel, ok := call.Fun.(*ast.SelectorExpr); ok && isCodecVar(sel.X, cvar) {
		m := sel.Sel.Name
		if enc {
			if k, ok := primW[m]; ok && len(call.Args) == 1 {
				return []*shape{{K: k, Path: src(call.Args[0])}}
			}
			if m == "Write" && len(call.Args) == 1 {
				if sl, ok := call.Args[0].(*ast.SliceExpr); ok && sl.Low == nil && sl.High == nil {
					if t, ok := typeOf(pkg, sl.X, en); ok {
						if n, ok := arrayLen(t); ok {
							return []*shape{{K: "fixed", N: n, Path: src(sl.X)}}
						}
					}
				}
			}
		} else {
			if k, ok := primR[m]; ok && len(call.Args) == 0 {
				return []*shape{{K: k, Path: lhs}}
			}
			if m == "Read" && len(call.Args) == 1 {
				if sl, ok := call.Args[0].(*ast.SliceExpr); ok && sl.Low == nil && sl.High == nil {
					if t, ok := typeOf(pkg, sl.X, en); ok {
						if n, ok := arrayLen(t); ok {
							return []*shape{{K: "fixed", N: n, Path: src(sl.X)}}
						}
					}
				}
			}
		}
		return []*shape{opaque("codec primitive " + src(call))}
	}
	// X.EncodeTo(e) / X.DecodeFrom(d)
	if sel, ok := call.Fun.(*ast.SelectorExpr); ok && len(call.Args) == 1 && isCodecVar(call.Args[0], cvar) {
		m := sel.Sel.Name
		if (enc && (m == "EncodeTo" || m == "encodeTo")) || (!enc && (m == "DecodeFrom" || m == "decodeFrom")) {
			t, ok := typeOf(pkg, sel.X, en)
			if !ok {
				return []*shape{opaque("cannot type " + src(sel.X))}
			}
			return []*shape{refShape(t, src(sel.X), enc)}
		}
	}
	// generic helpers
	name, targs := genericName(call.Fun)
	encH := map[string]bool{"EncodeSlice": true, "EncodeSliceCast": true, "EncodeSliceFn": true, "EncodePtr": true, "EncodePtrCast": true}
	decH := map[string]bool{"DecodeSlice": true, "DecodeSliceCast": true, "DecodeSliceFn": true, "DecodePtr": true, "DecodePtrCast": true}
	if (enc && encH[name]) || (!enc && decH[name]) {
		if len(call.Args) < 2 || !isCodecVar(call.Args[0], cvar) {
			return []*shape{opaque("helper call " + src(call))}
		}
		arg := stripAddr(call.Args[1])
		at, ok := typeOf(pkg, arg, en)
		if !ok {
			return []*shape{opaque("cannot type " + src(arg))}
		}
		path := src(arg)
		switch strings.TrimPrefix(strings.TrimPrefix(name, "Encode"), "Decode") {
		case "Slice":
			et, ok := elemType(at)
			if !ok {
				return []*shape{opaque("not a slice: " + path)}
			}
			return []*shape{{K: "slice", Sub: []*shape{refShape(et, "", enc)}, Path: path}}
		case "SliceCast":
			if len(targs) < 1 {
				return []*shape{opaque("cast without type argument")}
			}
			return []*shape{{K: "slice", Sub: []*shape{refShape(rtype{pkg, targs[0]}, "", enc)}, Path: path}}
		case "SliceFn":
			et, _ := elemType(at)
			if len(call.Args) < 3 {
				return []*shape{opaque("SliceFn without function")}
			}
			return []*shape{{K: "slice", Sub: []*shape{fnShape(pkg, call.Args[2], en, et, enc, cvar)}, Path: path}}
		case "Ptr":
			et, ok := ptrElem(at)
			if !ok {
				return []*shape{opaque("not a pointer: " + path)}
			}
			return []*shape{{K: "ptr", Sub: []*shape{refShape(et, "", enc)}, Path: path}}
		case "PtrCast":
			if len(targs) < 1 {
				return []*shape{opaque("cast without type argument")}
			}
			return []*shape{{K: "ptr", Sub: []*shape{refShape(rtype{pkg, targs[0]}, "", enc)}, Path: path}}
		}
	}
	return []*shape{opaque("statement " + src(call))}
}

func usesCodec(n ast.Node, cvar string) bool {
	found := false
	ast.Inspect(n, func(x ast.Node) bool {
		if id, ok := x.(*ast.Ident); ok && id.Name == cvar {
			found = true
		}
		return !found
	})
	return found
}

func translateStmt(pkg string, st ast.Stmt, en env, enc bool, cvar string) []*shape {
	switch s := st.(type) {
	case *ast.ReturnStmt:
		if len(s.Results) == 0 {
			return nil
		}
		// "return d.ReadX()" in a decode closure: the value read is the element
		if len(s.Results) == 1 && !enc {
			if call, ok := s.Results[0].(*ast.CallExpr); ok {
				return translateCall(pkg, call, en, enc, cvar, "v")
			}
		}
	case *ast.ExprStmt:
		if call, ok := s.X.(*ast.CallExpr); ok {
			if id, ok := call.Fun.(*ast.Ident); ok && id.Name == "nilSigs" {
				var out []*shape
				for _, a := range call.Args {
					out = append(out, &shape{K: "nil", Path: src(stripAddr(a))})
				}
				return out
			}
			// x.(EncoderTo).EncodeTo(e): dynamically typed field
			if sel, ok := call.Fun.(*ast.SelectorExpr); ok && len(call.Args) == 1 && isCodecVar(call.Args[0], cvar) {
				if ta, ok := sel.X.(*ast.TypeAssertExpr); ok {
					return []*shape{{K: "dyn", Path: src(ta.X)}}
				}
			}
			// copy(x.F[:], d.ReadBytes()): a length-prefixed byte string copied into a fixed array
			if id, ok := call.Fun.(*ast.Ident); ok && id.Name == "copy" && len(call.Args) == 2 && !enc {
				if inner, ok := call.Args[1].(*ast.CallExpr); ok && src(inner) == cvar+".ReadBytes()" {
					return []*shape{{K: "bytes", Path: src(call.Args[0])}}
				}
			}
			return translateCall(pkg, call, en, enc, cvar, "")
		}
	case *ast.TypeSwitchStmt:
		if !usesCodec(s, cvar) {
			// normalisation before encoding (e.g. V2TransactionSemantics strips signatures and proofs per resolution kind)
			var out []*shape
			for _, cc := range s.Body.List {
				if c, ok := cc.(*ast.CaseClause); ok {
					out = append(out, translateBody(pkg, c.Body, en, enc, cvar)...)
				}
			}
			return out
		}
	case *ast.AssignStmt:
		if !usesCodec(s, cvar) {
			if len(s.Lhs) == 1 && len(s.Rhs) == 1 && src(s.Rhs[0]) == "nil" {
				return []*shape{{K: "nil", Path: src(s.Lhs[0])}}
			}
			return nil // pure assignment (normalisation such as the revision payout sentinel): writes/reads nothing
		}
		if len(s.Lhs) == 1 && len(s.Rhs) == 1 {
			rhs := s.Rhs[0]
			// x.F = T(d.ReadUint64()) conversions
			if c, ok := rhs.(*ast.CallExpr); ok && len(c.Args) == 1 {
				if inner, ok := c.Args[0].(*ast.CallExpr); ok && usesCodec(inner, cvar) {
					if _, isSel := c.Fun.(*ast.SelectorExpr); !isSel || !usesCodec(c.Fun, cvar) {
						rhs = inner
					}
				}
			}
			if call, ok := rhs.(*ast.CallExpr); ok {
				return translateCall(pkg, call, en, enc, cvar, src(s.Lhs[0]))
			}
		}
	case *ast.DeclStmt:
		if !usesCodec(s, cvar) {
			if gd, ok := s.Decl.(*ast.GenDecl); ok {
				for _, sp := range gd.Specs {
					if vs, ok := sp.(*ast.ValueSpec); ok && vs.Type != nil {
						for _, n := range vs.Names {
							en[n.Name] = rtype{pkg, vs.Type}
						}
					}
				}
			}
			return nil
		}
	case *ast.RangeStmt:
		// for _, v := range X { ... } preceded by an explicit count write: reported as a slice without prefix
		if t, ok := typeOf(pkg, s.X, en); ok {
			if et, ok := elemType(t); ok {
				en2 := env{}
				for k, v := range en {
					en2[k] = v
				}
				if id, ok := s.Value.(*ast.Ident); ok {
					en2[id.Name] = et
				}
				lv := ""
				if id, ok := s.Value.(*ast.Ident); ok {
					lv = id.Name
				}
				return []*shape{{K: "loop", Sub: translateBody(pkg, s.Body.List, en2, enc, cvar), Path: src(s.X), Var: lv}}
			}
		}
	}
	return []*shape{opaque("statement " + src(st))}
}

// ---- emission ----
func coqName(q string) string {
	r := strings.NewReplacer("/", "_", ".", "_", "#", "_")
	return r.Replace(q)
}

func coqStr(s string) string { return "\"" + strings.ReplaceAll(s, "\"", "'") + "\"" }

func (s *shape) coq(mode string) string {
	switch s.K {
	case "u8":
		return "HU8"
	case "u64":
		return "HU64"
	case "bool":
		return "HBool"
	case "time":
		return "HTime"
	case "bytes":
		return "HBytes"
	case "string":
		return "HBytes"
	case "fixed":
		return fmt.Sprintf("(HFixed %d)", s.N)
	case "ref":
		return mode + "_" + coqName(s.Ref)
	case "slice":
		return "(HSlice " + s.Sub[0].coq(mode) + ")"
	case "ptr":
		return "(HPtr " + s.Sub[0].coq(mode) + ")"
	case "loop":
		return "(HLoop " + seqOf(s.Sub).coq(mode) + ")"
	case "seq":
		parts := make([]string, len(s.Sub))
		for i, x := range s.Sub {
			parts[i] = x.coq(mode)
		}
		return "(HSeq [" + strings.Join(parts, "; ") + "])"
	}
	return "(HOpaque " + coqStr(s.Why) + ")"
}

func (s *shape) refs(out map[string]bool) {
	if s.K == "ref" {
		out[s.Ref] = true
	}
	for _, x := range s.Sub {
		x.refs(out)
	}
}
func (s *shape) isOpaque() bool {
	if s.K == "opaque" || s.K == "loop" || s.K == "nil" || s.K == "dyn" {
		return true
	}
	for _, x := range s.Sub {
		if x.isOpaque() {
			return true
		}
	}
	return false
}
func (s *shape) paths(prefix string, out *[]string) {
	if s.Path != "" && (s.K != "seq") {
		*out = append(*out, s.Path)
	}
	if s.K == "loop" || s.K == "seq" {
		for _, x := range s.Sub {
			x.paths(prefix, out)
		}
	}
}

func qualify(path string, subst [][2]string) string {
	for i := len(subst) - 1; i >= 0; i-- {
		v, by := subst[i][0], subst[i][1]
		if v == "" {
			continue
		}
		// replace the identifier v when it starts a selector chain or stands alone
		var b strings.Builder
		for j := 0; j < len(path); {
			if strings.HasPrefix(path[j:], v) && (j == 0 || !isIdent(path[j-1])) && (j+len(v) == len(path) || !isIdent(path[j+len(v)])) {
				b.WriteString(by)
				j += len(v)
			} else {
				b.WriteByte(path[j])
				j++
			}
		}
		path = b.String()
	}
	return path
}
func isIdent(c byte) bool { return c == '_' || c >= '0' && c <= '9' || c >= 'a' && c <= 'z' || c >= 'A' && c <= 'Z' }

func (s *shape) written(subst [][2]string, wr, nl *[]string) {
	switch s.K {
	case "loop":
		sub := append(subst, [2]string{s.Var, qualify(s.Path, subst) + "[]"})
		for _, x := range s.Sub {
			x.written(sub, wr, nl)
		}
	case "seq":
		for _, x := range s.Sub {
			x.written(subst, wr, nl)
		}
	case "nil":
		*nl = append(*nl, qualify(s.Path, subst))
	case "opaque":
	default:
		if s.Path != "" {
			*wr = append(*wr, qualify(s.Path, subst))
		}
	}
}

type typeOut struct {
	Q       string   `json:"type"`
	Enc     *shape   `json:"enc"`
	Dec     *shape   `json:"dec"`
	Fields  []string `json:"fields"`
	EncPaths []string `json:"enc_paths"`
	Opaque  bool     `json:"opaque"`
	Written []string `json:"written"`
	Nilled  []string `json:"nilled"`
	SrcHash string   `json:"src_hash,omitempty"` // opaque codecs: hash of the normalised source of every codec method of the type
}

func main() {
	repo := flag.String("repo", "/repo", "repository root")
	out := flag.String("out", "", "output directory for Gen/*.v")
	hout := flag.String("harness", "", "directory of the harness module (gen_alltypes.go is written there)")
	flag.Parse()
	for _, dir := range pkgDirs {
		p := &pkgInfo{dir: dir, types: map[string]ast.Expr{}, meths: map[string]map[string]*ast.FuncDecl{}, imports: map[string]string{}, consts: map[string]string{}}
		pkgs[dir] = p
		files, _ := filepath.Glob(filepath.Join(*repo, dir, "*.go"))
		sort.Strings(files)
		for _, fn := range files {
			if strings.HasSuffix(fn, "_test.go") || strings.HasSuffix(fn, "verif_hooks.go") {
				continue
			}
			f, err := parser.ParseFile(fset, fn, nil, parser.SkipObjectResolution)
			if err != nil {
				fmt.Fprintln(os.Stderr, "parse error:", err)
				os.Exit(1)
			}
			p.name = f.Name.Name
			for _, im := range f.Imports {
				path, _ := strconv.Unquote(im.Path.Value)
				if strings.HasPrefix(path, "go.sia.tech/core/") {
					d := strings.TrimPrefix(path, "go.sia.tech/core/")
					alias := d[strings.LastIndex(d, "/")+1:]
					if d == "rhp/v2" || d == "rhp/v3" || d == "rhp/v4" {
						alias = "rhp"
					}
					if im.Name != nil {
						alias = im.Name.Name
					}
					p.imports[alias] = d
				}
			}
			for _, d := range f.Decls {
				switch x := d.(type) {
				case *ast.GenDecl:
					for _, sp := range x.Specs {
						switch ts := sp.(type) {
						case *ast.TypeSpec:
							p.types[ts.Name.Name] = ts.Type
						case *ast.ValueSpec:
							if x.Tok == token.CONST {
								for i, n := range ts.Names {
									if i < len(ts.Values) {
										p.consts[n.Name] = src(ts.Values[i])
									}
								}
							}
						}
					}
				case *ast.FuncDecl:
					if x.Recv != nil && x.Body != nil && len(x.Recv.List) == 1 {
						rt := x.Recv.List[0].Type
						if s, ok := rt.(*ast.StarExpr); ok {
							rt = s.X
						}
						if id, ok := rt.(*ast.Ident); ok {
							if p.meths[id.Name] == nil {
								p.meths[id.Name] = map[string]*ast.FuncDecl{}
							}
							p.meths[id.Name][x.Name.Name] = x
						}
					}
				}
			}
		}
	}
	// translate every EncodeTo / DecodeFrom pair
	var outs []*typeOut
	byQ := map[string]*typeOut{}
	for _, dir := range pkgDirs {
		p := pkgs[dir]
		var names []string
		for n := range p.meths {
			names = append(names, n)
		}
		sort.Strings(names)
		for _, n := range names {
			ms := p.meths[n]
			type pairT struct{ enc, dec, suffix string }
			pairs := []pairT{{"EncodeTo", "DecodeFrom", ""}}
			if ms["EncodeTo"] == nil && ms["DecodeFrom"] == nil {
				// unexported codec pairs (rhp/v4 RPC objects)
				pairs = []pairT{{"encodeTo", "decodeFrom", ""}}
			}
			// gateway RPC objects: separate request and response codecs
			pairs = append(pairs, pairT{"encodeRequest", "decodeRequest", "#request"}, pairT{"encodeResponse", "decodeResponse", "#response"})
			for _, pr := range pairs {
			encD, decD := ms[pr.enc], ms[pr.dec]
			if encD == nil && decD == nil {
				continue
			}
			to := &typeOut{Q: dir + "." + n + pr.suffix}
			tr := func(fd *ast.FuncDecl, enc bool) *shape {
				if fd == nil {
					return opaque("method missing")
				}
				en := env{}
				if len(fd.Recv.List[0].Names) == 1 {
					en[fd.Recv.List[0].Names[0].Name] = rtype{dir, fd.Recv.List[0].Type}
				}
				cvar := "e"
				if len(fd.Type.Params.List) == 1 && len(fd.Type.Params.List[0].Names) == 1 {
					cvar = fd.Type.Params.List[0].Names[0].Name
				}
				return &shape{K: "seq", Sub: translateBody(dir, fd.Body.List, en, enc, cvar)}
			}
			to.Enc, to.Dec = tr(encD, true), tr(decD, false)
			// one-directional codecs (e.g. txnSansSigs has no decoder): the other direction mirrors it
			if decD == nil && encD != nil {
				to.Dec = to.Enc
			} else if encD == nil && decD != nil {
				to.Enc = to.Dec
			}
			to.Opaque = to.Enc.isOpaque() || to.Dec.isOpaque()
			if to.Opaque {
				// the hand-written model of an opaque codec was written against this exact source text
				var mnames []string
				for mn, fd := range ms {
					uses := false
					for _, prm := range fd.Type.Params.List {
						pt := src(prm.Type)
						if strings.HasSuffix(pt, "Encoder") || strings.HasSuffix(pt, "Decoder") {
							uses = true
						}
					}
					if uses {
						mnames = append(mnames, mn)
					}
				}
				sort.Strings(mnames)
				h := sha256.New()
				for _, mn := range mnames {
					fmt.Fprintf(h, "%s:%s\n", mn, src(ms[mn].Body))
				}
				to.SrcHash = hex.EncodeToString(h.Sum(nil)[:16])
			}
			to.Enc.paths("", &to.EncPaths)
			to.Enc.written(nil, &to.Written, &to.Nilled)
			if st, ok := underlying(rtype{dir, &ast.Ident{Name: n}}).e.(*ast.StructType); ok {
				for _, f := range st.Fields.List {
					for _, fn := range f.Names {
						to.Fields = append(to.Fields, fn.Name)
					}
					if len(f.Names) == 0 {
						to.Fields = append(to.Fields, strings.TrimPrefix(src(f.Type), "*"))
					}
				}
			}
			outs = append(outs, to)
			byQ[to.Q] = to
			}
		}
	}
	// dependency order
	var order []*typeOut
	state := map[string]int{}
	var visit func(t *typeOut)
	visit = func(t *typeOut) {
		if state[t.Q] != 0 {
			return
		}
		state[t.Q] = 1
		refs := map[string]bool{}
		t.Enc.refs(refs)
		t.Dec.refs(refs)
		var rs []string
		for r := range refs {
			rs = append(rs, r)
		}
		sort.Strings(rs)
		for _, r := range rs {
			if d, ok := byQ[r]; ok && state[r] != 1 {
				visit(d)
			}
		}
		state[t.Q] = 2
		order = append(order, t)
	}
	for _, t := range outs {
		visit(t)
	}
	var b strings.Builder
	b.WriteString("(* GENERATED by /verif/translate from /repo on every run. Do not edit. *)\n")
	b.WriteString("From Coq Require Import List String.\nFrom Sia Require Import Codec.Shape.\nImport ListNotations.\nOpen Scope string_scope.\n\n")
	nOpaque := 0
	for _, t := range order {
		if t.Opaque {
			nOpaque++
			// opaque types are referenced by name only; their codecs are hand-modelled
			fmt.Fprintf(&b, "Definition enc_%s : shape := HNamed %s.\nDefinition dec_%s : shape := HNamed %s.\n", coqName(t.Q), coqStr(t.Q), coqName(t.Q), coqStr(t.Q))
			fmt.Fprintf(&b, "(* opaque because: enc %s | dec %s *)\n", noComment(firstOpaque(t.Enc)), noComment(firstOpaque(t.Dec)))
			continue
		}
		fmt.Fprintf(&b, "Definition enc_%s : shape := %s.\n", coqName(t.Q), t.Enc.coq("enc"))
		fmt.Fprintf(&b, "Definition dec_%s : shape := %s.\n", coqName(t.Q), t.Dec.coq("dec"))
	}
	b.WriteString("\nDefinition gen_types : list (string * shape * shape) := [\n")
	first := true
	for _, t := range order {
		if t.Opaque {
			continue
		}
		if !first {
			b.WriteString(";\n")
		}
		first = false
		fmt.Fprintf(&b, "  (%s, enc_%s, dec_%s)", coqStr(t.Q), coqName(t.Q), coqName(t.Q))
	}
	b.WriteString("].\n\nDefinition gen_opaque : list string := [\n")
	first = true
	for _, t := range order {
		if !t.Opaque {
			continue
		}
		if !first {
			b.WriteString(";\n")
		}
		first = false
		fmt.Fprintf(&b, "  %s", coqStr(t.Q))
	}
	b.WriteString("].\n\n(* opaque codecs: hash of the normalised source text of the codec methods of the type *)\nDefinition gen_opaque_src : list (string * string) := [\n")
	first = true
	for _, t := range order {
		if !t.Opaque {
			continue
		}
		if !first {
			b.WriteString(";\n")
		}
		first = false
		fmt.Fprintf(&b, "  (%s, %s)", coqStr(t.Q), coqStr(t.SrcHash))
	}
	b.WriteString("].\n\n(* struct fields and the expressions each encoder writes *)\nDefinition gen_fields : list (string * list string * list string) := [\n")
	first = true
	for _, t := range order {
		if !first {
			b.WriteString(";\n")
		}
		first = false
		fs := make([]string, len(t.Fields))
		for i, f := range t.Fields {
			fs[i] = coqStr(f)
		}
		ps := make([]string, len(t.EncPaths))
		for i, f := range t.EncPaths {
			ps[i] = coqStr(f)
		}
		fmt.Fprintf(&b, "  (%s, [%s], [%s])", coqStr(t.Q), strings.Join(fs, "; "), strings.Join(ps, "; "))
	}
	b.WriteString("].\n")
	b.WriteString("\n(* every expression each encoder writes (loop variables qualified) and every field it blanks first *)\nDefinition gen_written : list (string * list string * list string) := [\n")
	first = true
	for _, t := range order {
		if !first {
			b.WriteString(";\n")
		}
		first = false
		ws := make([]string, len(t.Written))
		for i, f := range t.Written {
			ws[i] = coqStr(f)
		}
		ns := make([]string, len(t.Nilled))
		for i, f := range t.Nilled {
			ns[i] = coqStr(f)
		}
		fmt.Fprintf(&b, "  (%s, [%s], [%s])", coqStr(t.Q), strings.Join(ws, "; "), strings.Join(ns, "; "))
	}
	b.WriteString("].\n")
	writeIfChanged(filepath.Join(*out, "Schemas.v"), b.String())
	js, _ := json.MarshalIndent(order, "", " ")
	writeIfChanged(filepath.Join(*out, "schemas.json"), string(js))
	if *hout != "" {
		var g strings.Builder
		g.WriteString("// GENERATED by /verif/translate. Do not edit.\npackage main\n\nimport (\n\t\"reflect\"\n\n\t\"go.sia.tech/core/consensus\"\n\t\"go.sia.tech/core/gateway\"\n\trhp2 \"go.sia.tech/core/rhp/v2\"\n\trhp3 \"go.sia.tech/core/rhp/v3\"\n\trhp4 \"go.sia.tech/core/rhp/v4\"\n\t\"go.sia.tech/core/types\"\n)\n\nvar _ = []any{consensus.State{}, gateway.Header{}, rhp2.RPCError{}, rhp3.RPCError{}, rhp4.RPCError{}, types.Hash256{}}\n\nvar genAllTypes = []struct {\n\tname string\n\ttyp  reflect.Type\n}{\n")
		alias := map[string]string{"types": "types", "consensus": "consensus", "gateway": "gateway", "rhp/v2": "rhp2", "rhp/v3": "rhp3", "rhp/v4": "rhp4"}
		for _, t := range order {
			pd, n := splitQ(t.Q)
			if !ast.IsExported(n) || pkgs[pd].meths[n]["EncodeTo"] == nil || pkgs[pd].meths[n]["DecodeFrom"] == nil {
				continue
			}
			if n == "DecoderFunc" || n == "EncoderFunc" {
				continue
			}
			fmt.Fprintf(&g, "\t{%q, reflect.TypeOf(%s.%s{})},\n", t.Q, alias[pd], n)
		}
		g.WriteString("}\n\n// RPC objects of rhp/v4 (unexported codec methods, driven through the verif hooks)\nvar genRhp4Objects = []struct {\n\tname string\n\tmk   func() rhp4.Object\n}{\n")
		for _, t := range order {
			pd, n := splitQ(t.Q)
			ms := pkgs[pd].meths[n]
			if pd != "rhp/v4" || !ast.IsExported(n) || ms["encodeTo"] == nil || ms["decodeFrom"] == nil || ms["maxLen"] == nil {
				continue
			}
			fmt.Fprintf(&g, "\t{%q, func() rhp4.Object { return new(rhp4.%s) }},\n", t.Q, n)
		}
		g.WriteString("}\n\n// gateway RPC objects: request and response codecs (unexported, driven through the verif hooks by the wrappers in gateway_wrap.go)\nvar genGatewayCodecs = []struct {\n\tname string\n\ttyp  reflect.Type\n}{\n")
		for _, t := range order {
			pd, q := splitQ(t.Q)
			if pd != "gateway" || !strings.Contains(q, "#") {
				continue
			}
			n := q[:strings.Index(q, "#")]
			if !ast.IsExported(n) {
				continue
			}
			w := "gwReq"
			if strings.HasSuffix(q, "#response") {
				w = "gwResp"
			}
			fmt.Fprintf(&g, "\t{%q, reflect.TypeOf(%s[gateway.%s, *gateway.%s]{})},\n", t.Q, w, n, n)
		}
		g.WriteString("}\n")
		writeIfChanged(filepath.Join(*hout, "gen_alltypes.go"), g.String())
	}
	fmt.Printf("translated %d codec types (%d opaque)\n", len(order), nOpaque)
}

func noComment(s string) string {
	return strings.ReplaceAll(strings.ReplaceAll(s, "(*", "( *"), "*)", "* )")
}

func firstOpaque(s *shape) string {
	if s.K == "opaque" {
		return s.Why
	}
	for _, x := range s.Sub {
		if w := firstOpaque(x); w != "" {
			return w
		}
	}
	return ""
}

func writeIfChanged(path, content string) {
	if old, err := os.ReadFile(path); err == nil && string(old) == content {
		return
	}
	if err := os.WriteFile(path, []byte(content), 0o644); err != nil {
		fmt.Fprintln(os.Stderr, err)
		os.Exit(1)
	}
}
