module verif/translate

go 1.26.0
