(* Line-protocol driver around the extracted model.
   input line:   <name> <tok>* => <tok>*      (tokens: hex integer, optionally negative; x<hex> bytes)
   output:       MISMATCH <lineno> | <line> | MODEL <tok>*   for every disagreement, then
                 TOTAL <n> MISMATCHES <m>
   With "-print" it prints the model's result for every line instead of comparing. *)
open Model

let rec pos_of_bits = function   (* bits MSB first, first bit is 1 *)
  | [] -> failwith "pos"
  | _ :: rest -> List.fold_left (fun p b -> if b then XI p else XO p) XH rest

let bits_of_hex (s : Stdlib.String.t) : bool list =
  let l = ref [] in
  String.iter (fun c ->
    let d = match c with
      | '0'..'9' -> Char.code c - 48 | 'a'..'f' -> Char.code c - 87 | 'A'..'F' -> Char.code c - 55
      | _ -> failwith ("bad hex " ^ s) in
    l := (d land 1 <> 0) :: (d land 2 <> 0) :: (d land 4 <> 0) :: (d land 8 <> 0) :: !l) s;
  List.rev !l

let z_of_hex (s : Stdlib.String.t) : z =
  let neg, s = if String.length s > 0 && s.[0] = '-' then true, String.sub s 1 (String.length s - 1) else false, s in
  let rec strip = function false :: r -> strip r | l -> l in
  match strip (bits_of_hex s) with
  | [] -> Z0
  | bits -> let p = pos_of_bits bits in if neg then Zneg p else Zpos p

let hex_of_pos (p : positive) : Stdlib.String.t =
  let rec bits p acc = match p with XH -> true :: acc | XO q -> bits q (false :: acc) | XI q -> bits q (true :: acc) in
  let b = bits p [] in (* MSB first *)
  let n = List.length b in
  let pad = (4 - n mod 4) mod 4 in
  let b = List.init pad (fun _ -> false) @ b in
  let buf = Buffer.create 16 in
  let rec go = function
    | a :: b :: c :: d :: r ->
      let v = (if a then 8 else 0) + (if b then 4 else 0) + (if c then 2 else 0) + (if d then 1 else 0) in
      Buffer.add_char buf "0123456789abcdef".[v]; go r
    | [] -> () | _ -> failwith "hex" in
  go b; Buffer.contents buf

let hex_of_z = function Z0 -> "0" | Zpos p -> hex_of_pos p | Zneg p -> "-" ^ hex_of_pos p

let n_of_int (i : int) : n = if i = 0 then N0 else
  let rec go i = if i = 1 then XH else if i land 1 = 1 then XI (go (i lsr 1)) else XO (go (i lsr 1)) in Npos (go i)
let int_of_n = function N0 -> 0 | Npos p ->
  let rec go = function XH -> 1 | XO q -> 2 * go q | XI q -> 2 * go q + 1 in go p

let byte_tab = Array.init 256 n_of_int
let bytes_of_hex (s : Stdlib.String.t) : n list =
  let n = String.length s / 2 in
  List.init n (fun i -> byte_tab.(int_of_string ("0x" ^ String.sub s (2*i) 2)))
let hex_of_bytes (l : n list) : Stdlib.String.t =
  let buf = Buffer.create 64 in
  List.iter (fun b -> Buffer.add_string buf (Printf.sprintf "%02x" (int_of_n b))) l; Buffer.contents buf

let coq_string (s : Stdlib.String.t) : Model.string =
  let asc c = let k = Char.code c in
    Ascii (k land 1 <> 0, k land 2 <> 0, k land 4 <> 0, k land 8 <> 0, k land 16 <> 0, k land 32 <> 0, k land 64 <> 0, k land 128 <> 0) in
  let r = ref EmptyString in
  for i = String.length s - 1 downto 0 do r := String (asc s.[i], !r) done; !r

let tok_of_string (s : Stdlib.String.t) : tok =
  if String.length s > 0 && s.[0] = 'x' then TB (bytes_of_hex (String.sub s 1 (String.length s - 1)))
  else TZ (z_of_hex s)
let string_of_tok = function TZ z -> hex_of_z z | TB b -> "x" ^ hex_of_bytes b

let h_native (b : n list) : n list =
  let by = Bytes.create (List.length b) in
  List.iteri (fun i x -> Bytes.set by i (Char.chr (int_of_n x))) b;
  let d = Blake2b.sum256 by in
  List.init 32 (fun i -> byte_tab.(Char.code (Bytes.get d i)))

let split_ws s = List.filter (fun x -> x <> "") (String.split_on_char ' ' s)

let () =
  let print_mode = Array.length Sys.argv > 1 && Sys.argv.(1) = "-print" in
  let total = ref 0 and bad = ref 0 and lineno = ref 0 in
  (try while true do
    let line = input_line stdin in
    incr lineno;
    if String.length line > 0 && line.[0] <> '#' then begin
      let toks = split_ws line in
      let rec split acc = function
        | "=>" :: r -> (List.rev acc, r)
        | x :: r -> split (x :: acc) r
        | [] -> (List.rev acc, []) in
      let (lhs, rhs) = split [] toks in
      match lhs with
      | [] -> ()
      | name :: args ->
        incr total;
        let res = (try List.map string_of_tok (api_dispatch h_native (coq_string name) (List.map tok_of_string args))
                   with Stack_overflow -> ["STACK_OVERFLOW"]) in
        let got = String.concat " " res in
        if print_mode then print_endline (String.concat " " lhs ^ " => " ^ got)
        else if got <> String.concat " " rhs then begin
          incr bad;
          if !bad <= 200 then Printf.printf "MISMATCH %d | %s | MODEL %s\n" !lineno line got
        end
    end
  done with End_of_file -> ());
  Printf.printf "TOTAL %d MISMATCHES %d\n" !total !bad
