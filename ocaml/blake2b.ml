(* BLAKE2b-256, unkeyed, over OCaml Int64 *)
let iv = [| 0x6a09e667f3bcc908L; 0xbb67ae8584caa73bL; 0x3c6ef372fe94f82bL; 0xa54ff53a5f1d36f1L;
            0x510e527fade682d1L; 0x9b05688c2b3e6c1fL; 0x1f83d9abfb41bd6bL; 0x5be0cd19137e2179L |]
let sigma = [|
 [|0;1;2;3;4;5;6;7;8;9;10;11;12;13;14;15|]; [|14;10;4;8;9;15;13;6;1;12;0;2;11;7;5;3|];
 [|11;8;12;0;5;2;15;13;10;14;3;6;7;1;9;4|]; [|7;9;3;1;13;12;11;14;2;6;5;10;4;0;15;8|];
 [|9;0;5;7;2;4;10;15;14;1;11;12;6;8;3;13|]; [|2;12;6;10;0;11;8;3;4;13;7;5;15;14;1;9|];
 [|12;5;1;15;14;13;4;10;0;7;6;3;9;2;8;11|]; [|13;11;7;14;12;1;3;9;5;0;15;4;8;6;2;10|];
 [|6;15;14;9;11;3;0;8;12;2;13;7;1;4;10;5|]; [|10;2;8;4;7;6;1;5;15;11;9;14;3;12;13;0|];
 [|0;1;2;3;4;5;6;7;8;9;10;11;12;13;14;15|]; [|14;10;4;8;9;15;13;6;1;12;0;2;11;7;5;3|] |]
let rotr x n = Int64.logor (Int64.shift_right_logical x n) (Int64.shift_left x (64 - n))
let compress h (block : Bytes.t) (t : int) last =
  let m = Array.init 16 (fun i -> Bytes.get_int64_le block (8*i)) in
  let v = Array.append (Array.copy h) (Array.copy iv) in
  v.(12) <- Int64.logxor v.(12) (Int64.of_int t);
  if last then v.(14) <- Int64.lognot v.(14);
  let g a b c d x y =
    v.(a) <- Int64.add (Int64.add v.(a) v.(b)) x; v.(d) <- rotr (Int64.logxor v.(d) v.(a)) 32;
    v.(c) <- Int64.add v.(c) v.(d); v.(b) <- rotr (Int64.logxor v.(b) v.(c)) 24;
    v.(a) <- Int64.add (Int64.add v.(a) v.(b)) y; v.(d) <- rotr (Int64.logxor v.(d) v.(a)) 16;
    v.(c) <- Int64.add v.(c) v.(d); v.(b) <- rotr (Int64.logxor v.(b) v.(c)) 63 in
  for r = 0 to 11 do
    let s = sigma.(r) in
    g 0 4 8 12 m.(s.(0)) m.(s.(1)); g 1 5 9 13 m.(s.(2)) m.(s.(3));
    g 2 6 10 14 m.(s.(4)) m.(s.(5)); g 3 7 11 15 m.(s.(6)) m.(s.(7));
    g 0 5 10 15 m.(s.(8)) m.(s.(9)); g 1 6 11 12 m.(s.(10)) m.(s.(11));
    g 2 7 8 13 m.(s.(12)) m.(s.(13)); g 3 4 9 14 m.(s.(14)) m.(s.(15))
  done;
  for i = 0 to 7 do h.(i) <- Int64.logxor (Int64.logxor h.(i) v.(i)) v.(i+8) done
let sum256 (data : Bytes.t) : Bytes.t =
  let h = Array.copy iv in
  h.(0) <- Int64.logxor h.(0) 0x01010020L;
  let n = Bytes.length data in
  let pos = ref 0 in
  while n - !pos > 128 do
    compress h (Bytes.sub data !pos 128) (!pos + 128) false; pos := !pos + 128
  done;
  let blk = Bytes.make 128 '\000' in
  Bytes.blit data !pos blk 0 (n - !pos);
  compress h blk n true;
  let out = Bytes.create 32 in
  for i = 0 to 3 do Bytes.set_int64_le out (8*i) h.(i) done; out
