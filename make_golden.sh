#!/bin/bash
# Regenerates coq/Codec/Golden.v from the translator's current output (run by hand when the wire
# layout of the pinned tree is (re)confirmed; never run by the checks).
cd "$(dirname "$0")"
sed -e 's/\benc_\([a-z]\)/g_enc_\1/g; s/\bdec_\([a-z]\)/g_dec_\1/g; s/gen_types/golden_types/; s/gen_opaque/golden_opaque/; s/gen_fields/golden_fields/; s/gen_written/golden_written/' \
    -e 's/^(\* GENERATED.*/(* Golden copy of the translator output for the pinned tree: the wire layout as implemented there. Made by make_golden.sh. *)/' \
    coq/Gen/Schemas.v > coq/Codec/Golden.v
