import sys, os, re, json, time, subprocess, fcntl, argparse, glob, shutil

FORBIDDEN = re.compile(r'\b(Admitted|admit|Axiom|Axioms|Parameter|Parameters|Conjecture|Admit Obligations|bypass_check|native_compute)\b|Unset Guard|Unset Positivity|Unset Universe|-type-in-type|impredicative-set')
TOPVAR = re.compile(r'^\s*(Variable|Variables|Hypothesis|Hypotheses|Context)\b')

ENV = dict(os.environ, GOFLAGS='-mod=mod', GOPROXY='off', GOSUMDB='off', GOTOOLCHAIN='local',
           CARGO_NET_OFFLINE='true', PIP_NO_INDEX='1')
GO = 'go1.26'
NPROC = 16


def sh(cmd, cwd=None, timeout=3600, inp=None):
    p = subprocess.run(cmd, cwd=cwd, env=ENV, shell=isinstance(cmd, str), stdout=subprocess.PIPE,
                       stderr=subprocess.STDOUT, timeout=timeout, input=inp)
    return p.returncode, p.stdout.decode('utf-8', 'replace')


def strip_comments(src):
    out, depth, i = [], 0, 0
    while i < len(src):
        if src.startswith('(*', i):
            depth += 1; i += 2
        elif src.startswith('*)', i) and depth:
            depth -= 1; i += 2
        else:
            if not depth:
                out.append(src[i])
            elif src[i] == '\n':
                out.append('\n')
            i += 1
    return ''.join(out)


def gate(root):
    """reject forbidden vernacular anywhere in the development (comments stripped)"""
    bad = []
    for f in glob.glob(root + '/coq/**/*.v', recursive=True):
        src = strip_comments(open(f).read())
        depth = 0
        for n, line in enumerate(src.split('\n'), 1):
            if FORBIDDEN.search(line):
                bad.append('%s:%d: %s' % (os.path.relpath(f, root), n, line.strip()))
            if re.match(r'^\s*Section\b', line): depth += 1
            if re.match(r'^\s*End\b', line) and depth: depth -= 1
            if TOPVAR.match(line) and depth == 0:
                bad.append('%s:%d: %s (outside a section)' % (os.path.relpath(f, root), n, line.strip()))
    return bad


def newer(a, b):
    return not os.path.exists(b) or os.path.getmtime(a) > os.path.getmtime(b)


class Build:
    def __init__(self, root):
        self.root = root
        self.log = []

    def note(self, s):
        self.log.append(s)

    def translate(self):
        """regenerate coq/Gen/*.v from /repo's working tree (written only when content changes)"""
        tdir = self.root + '/translate'
        if not os.path.exists(tdir + '/main.go'):
            return True, ''
        rc, out = sh([GO, 'build', '-o', self.root + '/build/translate', '.'], cwd=tdir)
        if rc != 0:
            return False, 'translator build failed:\n' + out
        rc, out = sh([self.root + '/build/translate', '-repo', '/repo', '-out', self.root + '/coq/Gen', '-harness', self.root + '/harness'], cwd=tdir)
        if rc != 0:
            return False, out
        # the implementation's own length limits (maxLen() methods, batch constants), evaluated on the current tree
        ok, hout = self.harness()
        if not ok:
            return False, 'harness does not build against /repo:\n' + hout
        rc, out2 = sh([self.root + '/build/harness', '-limits', self.root + '/coq/Gen/Limits.v'], cwd=self.root + '/harness')
        return rc == 0, out + out2

    def coq(self, prop):
        """full .vo build (incremental), then Props/<prop>.v compiled on its own with output captured"""
        cdir = self.root + '/coq'
        if newer(cdir + '/_CoqProject', cdir + '/Makefile'):
            sh('coq_makefile -f _CoqProject -o Makefile', cwd=cdir)
        pv = 'Props/%s.v' % prop
        for ext in ('.vo', '.vok', '.vos', '.glob'):
            try: os.remove(cdir + '/' + pv[:-2] + ext)
            except FileNotFoundError: pass
        # everything except the Props files (their dependencies, the models and Api)
        rc, out = sh('timeout 3000 make -k -j%d 2>&1' % NPROC, cwd=cdir, timeout=3100)
        self.make_rc, self.make_out = rc, out
        ok = os.path.exists(cdir + '/' + pv + 'o')
        # capture Print Assumptions output of this property's file
        rc2, pout = sh(['coqc', '-Q', '.', 'Sia', pv], cwd=cdir, timeout=1200)
        return (ok and rc2 == 0), pout, out

    def coqchk(self, prop):
        """independent re-check of the compiled library behind Props/<prop> (thorough tier); prints the axioms it relies on"""
        cdir = self.root + '/coq'
        rc, out = sh('timeout 5400 coqchk -silent -o -Q . Sia Sia.Props.%s 2>&1' % prop, cwd=cdir, timeout=5500)
        m = re.search(r'\* Axioms:(.*?)\n\s*\n', out, re.S)
        axioms = (m.group(1).strip() if m else '?')
        return rc == 0, axioms, out[-1500:]

    def model(self):
        """extraction + OCaml driver"""
        odir, cdir = self.root + '/ocaml', self.root + '/coq'
        api = cdir + '/Extract/Api.vo'
        # the executable model must be the one the current sources define: a stale Api.vo (its own source or a file it
        # depends on no longer compiles) would silently run yesterday's model
        rc, out = sh('timeout 3000 make -j%d Extract/Api.vo 2>&1' % NPROC, cwd=cdir, timeout=3100)
        if rc != 0 or not os.path.exists(api):
            return False, 'Extract/Api.vo does not build (the executable model does not compile):\n' + out[-3000:]
        need = newer(api, odir + '/model.ml')
        if need:
            rc, out = sh(['coqc', '-Q', '../coq', 'Sia', '../coq/Extract/Extract.v'], cwd=odir, timeout=1200)
            if rc != 0:
                return False, 'extraction failed:\n' + out
        binp = self.root + '/build/model'
        if need or any(newer(f, binp) for f in glob.glob(odir + '/*.ml')):
            rc, out = sh('ocamlfind ocamlopt -O3 -w -a -o %s blake2b.ml model.mli model.ml driver.ml' % binp, cwd=odir, timeout=1200)
            if rc != 0:
                return False, 'ocaml build failed:\n' + out
        return True, ''

    def harness(self, race=False):
        hdir = self.root + '/harness'
        shutil.copy('/repo/go.sum', hdir + '/go.sum')
        rc, out = sh([GO, 'build', '-tags', 'verif', '-o', self.root + '/build/harness', '.'], cwd=hdir, timeout=1200)
        if rc == 0 and race:
            rc, out = sh([GO, 'build', '-race', '-tags', 'verif', '-o', self.root + '/build/harness-race', '.'], cwd=hdir, timeout=1800)
        return rc == 0, out


def run_model(root, cases_path, rundir):
    """split the case file over NPROC model processes; returns (total, mismatches, lines)"""
    lines = open(cases_path).read().split('\n')
    lines = [l for l in lines if l]
    if not lines:
        return 0, 0, []
    k = min(NPROC, max(1, len(lines) // 200))
    # contiguous blocks would put all expensive cases in one chunk: deal round-robin
    chunks = [lines[i::k] for i in range(k)]
    procs = []
    for i, c in enumerate(chunks):
        p = subprocess.Popen(['bash', '-c', 'ulimit -s unlimited 2>/dev/null; exec %s/build/model' % root],
                             stdin=subprocess.PIPE, stdout=subprocess.PIPE, stderr=subprocess.STDOUT)
        procs.append(p)
    import threading
    outs = [None] * k
    def feed(i):
        outs[i] = procs[i].communicate(('\n'.join(chunks[i]) + '\n').encode())[0].decode('utf-8', 'replace')
    ts = [threading.Thread(target=feed, args=(i,)) for i in range(k)]
    [t.start() for t in ts]; [t.join() for t in ts]
    total = bad = 0; mism = []
    for i, o in enumerate(outs):
        m = re.search(r'TOTAL (\d+) MISMATCHES (\d+)', o or '')
        if not m:
            bad += 1; mism.append('model process %d died: %s' % (i, (o or '')[-300:]))
            continue
        total += int(m.group(1)); bad += int(m.group(2))
        mism += [l for l in o.split('\n') if l.startswith('MISMATCH')]
    return total, bad, mism


def known_findings(root):
    kf = []
    p = root + '/known_findings.txt'
    if os.path.exists(p):
        for l in open(p):
            m = re.match(r'finding: property=(\S+) key=(\S+) (.*)', l.strip())
            if m: kf.append((m.group(1), m.group(2), m.group(3)))
    return kf


def parse_props(root, prop):
    src = strip_comments(open('%s/coq/Props/%s.v' % (root, prop)).read())
    return re.findall(r'^\s*(?:Theorem|Lemma|Example|Corollary)\s+(\w+)', src, re.M)


def parse_assumptions(pout):
    """split coqc output of a Props file into one block per Print Assumptions"""
    blocks, cur = [], None
    for l in pout.split('\n'):
        if l.startswith('Closed under the global context'):
            blocks.append('Closed under the global context'); cur = None
        elif l.startswith('Axioms:'):
            cur = [l]; blocks.append(cur)
        elif cur is not None and (l.startswith(' ') or l.strip() == '' or re.match(r'^[\w.]+ :', l)):
            if l.strip(): cur.append(l)
        else:
            cur = None
    return ['\n'.join(b) if isinstance(b, list) else b for b in blocks]


def main(root, argv):
    ap = argparse.ArgumentParser()
    ap.add_argument('prop')
    ap.add_argument('--tier', default=os.environ.get('VERIF_TIER') or 'quick')
    ap.add_argument('--replay')
    a = ap.parse_args(argv)
    prop, tier = a.prop, a.tier if a.tier in ('quick', 'thorough') else 'quick'
    try: seed = int(os.environ.get('VERIF_SEED') or 1)
    except ValueError: seed = 1
    import props_meta
    meta = props_meta.META[prop]
    t0 = time.time()
    os.makedirs(root + '/build', exist_ok=True)
    os.makedirs(root + '/evidence', exist_ok=True)
    os.makedirs(root + '/replays', exist_ok=True)
    rundir = '%s/build/run.%s.%d' % (root, prop, os.getpid())
    os.makedirs(rundir, exist_ok=True)
    if a.replay:
        return replay(root, prop, a.replay, rundir)

    violations = []   # (replay_text, has_input, key)
    known_printed = []
    b = Build(root)
    lock = open(root + '/build/.lock', 'w')
    fcntl.flock(lock, fcntl.LOCK_EX)
    try:
        gate_bad = gate(root)
        tr_ok, tr_out = b.translate()
        coq_ok, pout, mout = b.coq(prop)
        mod_ok, mod_out = b.model()
        har_ok, har_out = b.harness(race=meta.get('race', False))
        chk = None
        if tier == 'thorough' and coq_ok:
            chk = b.coqchk(prop)
    finally:
        fcntl.flock(lock, fcntl.LOCK_UN)

    theorems = parse_props(root, prop)
    axioms = parse_assumptions(pout) if coq_ok else []
    obligations = len(theorems) + meta.get('generated_obligations', lambda r: 0)(root)
    discharged = obligations if coq_ok else 0
    broken = []
    if gate_bad:
        broken.append('forbidden vernacular in the development:\n' + '\n'.join(gate_bad))
    if not tr_ok:
        broken.append('translator failed on /repo:\n' + tr_out[-3000:])
    if not coq_ok:
        errs = re.findall(r'File "\./([^"]+)", line (\d+).*?\n(Error:.*?)(?:\n\n|\nmake)', mout, re.S)
        broken.append('proof obligations for %s no longer check (Props/%s.v or a file it depends on):\n%s\n%s' %
                      (prop, prop, '\n'.join('%s:%s %s' % e for e in errs[:10]), pout[-2000:]))
    if chk is not None and not chk[0]:
        broken.append('coqchk rejects the compiled library behind Props/%s:\n%s' % (prop, chk[2]))
    if not mod_ok:
        broken.append('model build: ' + mod_out[-3000:])
    if not har_ok:
        broken.append('harness does not build against /repo (tie broken):\n' + har_out[-3000:])

    stats = {'cases': 0, 'distinct_nontrivial': 0, 'distribution': {}, 'samples': [], 'violations': [], 'notes': []}
    total = nbad = 0; mism = []
    if har_ok:
        extra = meta.get('harness_args', [])
        hbin = 'harness-race' if meta.get('race') else 'harness'
        # (the race detector reserves a large virtual address range: no ulimit -v for that binary)
        lim = 'true' if meta.get('race') else 'ulimit -v %d' % meta.get('mem_kb', 12000000)
        hcmd = '%s; GORACE="halt_on_error=1 exitcode=66" exec %s/build/%s -tier %s -seed %d -out %s %s %s' % (
            lim, root, hbin, tier, seed, rundir, ' '.join(extra), prop)
        rc, hout = sh(['bash', '-c', hcmd], cwd=root + '/harness', timeout=meta.get('timeout', 3000))
        if rc != 0 or not os.path.exists(rundir + '/stats.json'):
            broken.append('harness run failed (rc=%d):\n%s' % (rc, hout[-3000:]))
        else:
            stats = json.load(open(rundir + '/stats.json'))
            if mod_ok:
                total, nbad, mism = run_model(root, rundir + '/cases.txt', rundir)

    kf = known_findings(root)
    # 1. concrete failing inputs found by the property oracle on the implementation
    seen_keys = set()
    other = []
    def owners(key):
        m = re.match(r'^c(\d\d)\.', key) or re.search(r':c(\d\d)\.', key)
        if m: return {'C' + m.group(1)}
        if key.startswith('known.'):
            return {f[0] for f in kf if f[1] == key}
        return None   # harness-level: counts for whichever check met it
    for v in (stats.get('violations') or []):
        own = owners(v['key'])
        if own is not None and prop not in own:
            other.append(v['key'])
            continue
        k = [f for f in kf if f[0] == prop and f[1] == v['key']]
        if k:
            if v['key'] not in seen_keys:
                print('KNOWN-FINDING: property=%s %s [%s]' % (prop, k[0][2], v['key']))
                known_printed.append(v['key'])
            seen_keys.add(v['key'])
        else:
            violations.append(('oracle violation key=%s\n%s' % (v['key'], v['detail']), True, v['key']))
    # 2. model and implementation disagree
    if nbad:
        has_input = any(x[1] for x in violations)
        violations.append(('correspondence %s: model (coq/Extract/Api.v, extracted) and implementation disagree on %d of %d cases\n%s' %
                           (prop, nbad, total, '\n'.join(mism[:50])), meta.get('mismatch_is_input', False) or has_input, 'correspondence'))
    # 3. broken obligations / tie without a concrete input
    for msg in broken:
        has_input = any(x[1] for x in violations)
        violations.append((msg, has_input, 'broken'))

    nviol = 0
    # report: violations with a concrete input first; those without, only when no input was found
    with_input = [v for v in violations if v[1]]
    without = [v for v in violations if not v[1]]
    report = []
    if with_input:
        text = '\n\n'.join(v[0] for v in with_input + without)
        report.append((text, True))
    elif without:
        report.append(('\n\n'.join(v[0] for v in without), False))
    if not report:
        stale = '%s/replays/%s.%s.%d.txt' % (root, prop, tier, seed)
        if os.path.exists(stale):
            os.remove(stale)   # a replay file exists only for a violation reported by this run
    for i, (text, has_input) in enumerate(report):
        path = '%s/replays/%s.%s.%d.txt' % (root, prop, tier, seed)
        with open(path, 'w') as f:
            f.write('property=%s tier=%s seed=%d\n%s\n' % (prop, tier, seed, text))
        print('VIOLATION property=%s replay=%s%s' % (prop, path, '' if has_input else ' no-failing-input-found'))
        nviol += 1

    cov = {
        'obligations': max(obligations, 1), 'discharged': discharged,
        'checker_cmd': 'make -C coq (coqc 8.16.1, full .vo build) ; coqc -Q coq Sia coq/Props/%s.v' % prop,
        'trusted_base': meta['trusted_base'],
        'theorems': theorems,
        'axioms': sorted(set(axioms)) if axioms else [],
        'proofs_checked_this_run': coq_ok,
        'evaluations': max(total + sum(v for k, v in (stats.get('distribution') or {}).items() if k.startswith('oracle') or k.startswith('text') or k.startswith('block-')), 0),
        'model_cases': total, 'model_mismatches': nbad,
        'distinct_nontrivial': stats.get('distinct_nontrivial', 0),
        'rule': meta['rule'],
        'samples': (stats.get('samples') or [])[:12] or ['(no cases)'],
        'distribution': (stats.get('distribution') or {}),
        'notes': (stats.get('notes') or []),
        'known_findings_reproduced': known_printed,
        'violations_attributed_to_other_properties': sorted(set(other)),
    }
    if chk is not None:
        cov['notes'] = list(cov['notes']) + ['coqchk -silent -o on Sia.Props.%s and everything it depends on: %s; axioms: %s' % (prop, 'accepted' if chk[0] else 'REJECTED', chk[1])]
    if stats.get('exhaustive'):
        cov['exhaustive'] = True
    ev = {'property_id': prop, 'tier': tier, 'seed': seed, 'level': 'proof', 'coverage': cov,
          'assumptions': meta['assumptions'], 'wall_s': round(time.time() - t0, 2), 'violations': nviol}
    with open('%s/evidence/%s.json' % (root, prop), 'w') as f:
        json.dump(ev, f, indent=1)
    shutil.rmtree(rundir, ignore_errors=True)
    print('%s: %s theorems checked=%s, %d model cases, %d mismatches, %d oracle violations, %.1fs' %
          (prop, len(theorems), coq_ok, total, nbad, len((stats.get('violations') or [])), time.time() - t0))
    return 1 if nviol else 0


def replay(root, prop, path, rundir):
    txt = open(path).read()
    print(txt)
    lines = [l.split(' | ')[1] for l in txt.split('\n') if l.startswith('MISMATCH') and ' | ' in l]
    if lines:
        rc, out = sh([root + '/build/model', '-print'], inp=('\n'.join(lines) + '\n').encode())
        print('model on the mismatching cases:\n' + out)
    shutil.rmtree(rundir, ignore_errors=True)
    return 0
