"""Per-property metadata used by checklib: what is trusted, what the cases are."""

KERNEL = 'Coq 8.16.1 kernel (coqc; vm_compute used, native_compute not used); coqchk re-check in the thorough tier'
EXTRACT = ('extraction with ExtrOcamlBasic only (Extract Inductive bool/option/unit/list/prod/sumbool/sumor, '
           'Extract Inlined Constant andb/orb/negb/fst/snd); no Extract Constant of our own; OCaml 4.13.1; ocaml/driver.ml line protocol')
HARNESS = 'Go correspondence harness /verif/harness (generators, canonicalisation, comparison, property oracle) built against /repo with -tags verif'
BLAKE = 'BLAKE2b-256: arbitrary function H in every theorem; native ocaml/blake2b.ml passed as H to the extracted model, validated against Go on each run'

META = {
 'C15': {
  'rule': ('all ordered pairs of a 65-value boundary set (0, 2^k±2 for k in 1,31..33,63..65,95,96,126..128, sqrt-scale and decimal-unit values) '
           'times every operation (Add/Sub/Mul/Mul64/Div/Div64/Cmp, flag and panic forms), then random pairs with per-limb magnitudes and '
           'directed near-overflow/near-equal operands; each case = implementation result recomputed by the extracted Coq model; '
           'non-trivial = overflow/underflow/panic flagged or a high limb involved, counted distinct by hash of the case line; '
           'text forms (String, ExactString, %d, %v, JSON, ParseCurrency) checked by the Go-side oracle against math/big'),
  'trusted_base': [KERNEL, EXTRACT, HARNESS,
                   'math/bits primitives Add64/Sub64/Mul64/Div64/LeadingZeros64 modelled over Z as documented (Currency/Model.v)',
                   'math/big as independent oracle; big.Int/big.Rat text parsing is not modelled (text forms are correspondence/oracle only)'],
  'assumptions': ['limbs are in [0,2^64) (wfc); Go uint64 wrap written explicitly as mod 2^64',
                  'quoRem (128/128 division) and the text forms are validated by correspondence and the math/big oracle, not yet by theorem'],
  'mismatch_is_input': True,
  'level_text': 'Exactness of Add/Sub/Mul/Mul64/Cmp (flag and panicking forms) and of division by a 64-bit value is proved in Coq for all 128-bit operands; the Go code is tied to the model by recomputing every generated case with the extracted model; 128-by-128 division and the text forms are covered by correspondence and a math/big oracle only (stated as partial in the evidence).',
 },
}

ACC_TB = [KERNEL, EXTRACT, HARNESS, BLAKE,
          'verif hooks in /repo/consensus/verif_hooks.go (thin wrappers around elementLeaf.hash, proofRoot, containsLeaf, applyBlock, revertBlock, updateElementProof)',
          'the model is the *true forest*: all leaves ever added, built naively (Merkle/Acc.v); Go\'s incremental addLeaves/updateLeaves/updateProof/treeGrowth are tied to it by comparing roots, leaf count and every maintained proof after each apply/revert']
META['C05'] = {
  'rule': ('accumulator-level histories driven through the verif hooks: (a) every leaf count 0..96 (thorough 0..300) x added in {0,1,2,3,5,9} with up to 3 rewritten leaves, '
           'each optionally reverted; (b) random histories of 3-12 steps mixing blocks (0-6 rewritten leaves, 0-80 added) and reverts of depth 1-4; after every step the '
           'implementation\'s NumLeaves, tree roots and the proof of every tracked leaf (maintained only through UpdateElementProof) are compared with the naive forest of the model; '
           'plus elementLeaf.hash and proofRoot on random 64-bit indices. Oracle on the Go side: each maintained proof verifies (containsLeaf) with the current spent flag, and proofs after a revert equal the pre-block proofs. '
           'non-trivial = history with more than one block; distinct by hash of the case line'),
  'trusted_base': ACC_TB,
  'assumptions': ['the refinement "Go\'s incremental proof maintenance (treeGrowth windows, updateProof merge-height patching) = naive forest paths" is established by correspondence on the generated histories, not by theorem; '
                  'the theorems cover: naive proofs verify for every history (C05_history), verified proofs are forest paths (soundness mod node collision), carry chain = naive roots, leaf count, updateLeaves recursion root, updateProof single-update lemma'],
  'level_text': 'Proved in Coq for all histories and sizes: the naive forest proof of every leaf verifies against the accumulator roots and carries the current element hash/index/spent flag; any verifying proof is the forest path (or a node-hash collision is exhibited); addLeaves\' carry chain computes the naive roots and leaf count; updateLeaves\' recursion returns the updated tree root; the updateProof patch lemma. The Go implementation (incl. revert) is tied to the naive forest by recomputing roots and every maintained proof for each generated history (partial: the incremental proof-maintenance refinement itself is correspondence, not theorem).',
}
META['C04'] = {
  'rule': ('same accumulator histories as C05; per history 6-8 membership queries against the real containsLeaf: genuine leaf, spent flag flipped, element hash altered, another leaf\'s proof, another index, '
           'index altered only in bits above the tree height, proof hash altered, proof too short/long, never-created element, stale (since rewritten) contents with a fresh proof; '
           'the model answers the same queries over the naive forest; oracle: genuine accepted, every mutation rejected'),
  'trusted_base': ACC_TB + ['leaf hash compositions of the element kinds (siacoinLeaf ... chainIndexLeaf) are abstracted as the 32-byte element hash here; their field coverage is C12/C11 territory'],
  'assumptions': ['"or NodeCollision/LeafCollision": a concrete colliding pair of the 65-byte node hash or the 42-byte leaf hash is exhibited by the proof instead of assuming collision resistance',
                  'v1 supplement / ValidateTransactionElements entry points are exercised by the ledger checks; here containsLeaf is driven directly'],
  'level_text': 'Proved in Coq for every history: containsLeaf accepts a (element hash, index, spent, proof) only if exactly that leaf is the current leaf at that index of the true forest and the proof is its forest path, otherwise a concrete hash collision is exhibited; live leaves are accepted; wrong-height proofs rejected. Tied to the Go containsLeaf by recomputation of genuine and mutated membership queries on generated histories.',
}

META['C16'] = {
  'rule': ('MetaRoot for every count 0..70 (thorough 0..300); every (n,start,end) with n<=14 (thorough 40): BuildSectorRangeProof, RangeProofSize, VerifySectorRangeProof/VerifySectorRootsProof, '
           'with every single-element corruption (each proof hash, each covered datum, root, index shift, proof one shorter at either end / one longer) on all n<=7 (12) and a sample beyond; random larger n incl. powers of two +-1; '
           'append proofs (v4 BuildAppendProof/VerifyAppendSectorsProof, v2 VerifyAppendProof) for n=0..20 (80) x batch sizes 1,2,3,7 with corruptions; free-sector proofs for all non-empty subsets of n<=6 (10) in shuffled order and random larger; '
           'general v2 diff proofs over random swap/trim/append sequences with corruptions; data-level ReaderRoot for 15 sizes with random reader chunkings on both CPU paths (cpu.X86.HasAVX2 toggled) recomputed by the model from the raw bytes; '
           'full 4 MiB sectors: SectorRoot = ReadSectorRoot = ReaderRoot = v4 SectorRoot = plain tree on both CPU paths, BuildProof/BuildSectorProof(cache) = plain range proof, RangeProofVerifier accept/reject, VerifyLeafProof, ConvertProofOrdering. '
           'every Go result is recomputed by the extracted model (Merkle/Rhp.v) with real BLAKE2b; oracle on the Go side: honest accepted, corrupted rejected, sizes match, roots equal the plain recursive tree'),
  'trusted_base': [KERNEL, EXTRACT, HARNESS, BLAKE,
                   'AVX2 assembly, unsafe casts and goroutine fan-out of SectorRoot are compared on data (both CPU paths), not modelled',
                   'full-sector proofs are compared on the Go side against the plain range proof over generic leaf hashes; the model recomputes 128-leaf subtrees from raw data and all proof algorithms over hash lists'],
  'assumptions': ['completeness/soundness of the range, append and diff proof algorithms against the plain tree are correspondence + corruption enumeration, not yet theorems; proved: the accumulators are the binary-numeral forest over exactly the inserted leaves; proof completeness/soundness within one perfect tree',
                  'the element count given to verifiers is a trusted input (as the property states)'],
  'level_text': 'Proved: the verifier accumulators (insertNode at height 0 / AddLeaf) maintain a forest of perfect trees over exactly the inserted leaves (digit i of height i, count = numeral value); Merkle path completeness and soundness (mod exhibited node collision) inside a perfect tree. The executable model of MetaRoot, range/append/diff/free proofs, sizes and ConvertProofOrdering reproduces every Go result on exhaustive small and random inputs incl. all single-element corruptions. Partial: the general completeness/soundness theorems for the range/diff algorithms over the plain tree are not yet proved.',
}

META['C14'] = {
  'rule': ('(a) small trees enumerated: 8 leaf kinds (above at/over the height, after before/at the median, two public keys, hash lock, opaque) alone, all ordered pairs under thresholds n=0..2, and nested thresholds, '
           'each with witness assignments: valid, first signature missing, last signature corrupted, two signatures reordered, preimage missing/corrupted, surplus signature, surplus preimage; '
           '(b) random policies of depth <= 3 over all 7 kinds incl. legacy unlock conditions (entropy/unknown algorithms, short keys, wrong counts) at heights/times around each lock with real Ed25519 keys; '
           '(c) complexity limits (255/256/300 children, 1000/1250/1500 total); (d) Address of every threshold vs. random opaque substitutions, StandardAddress/StandardUnlockHash. '
           'Each Verify result (accept / error class) is recomputed by the extracted model with signature/preimage oracle tables filled from the real ed25519/sha256; addresses recomputed byte for byte. '
           'Go-side oracle: an independently written evaluator of the policy meaning'),
  'trusted_base': [KERNEL, EXTRACT, HARNESS, BLAKE,
                   'Ed25519 verification and SHA-256 are oracles (section variables in the theorems, tables filled from the real functions in the correspondence)',
                   'the two 16-byte specifiers ed25519/entropy are constants in Extract/Api.v'],
  'assumptions': ['a single biconditional verify <-> declarative satisfaction relation is not yet proved; the proved statements are the individual clauses of the property (locks, one witness per leaf, threshold exactness, unlock-condition counts, no leftovers, opaque address invariance and unusability, limits)'],
  'level_text': 'Proved for all policies/inputs over arbitrary signature and preimage oracles: opaque substitution never changes a threshold address; opaque branches are unusable; height/time locks compare as >= and strictly-after; each key/hash leaf consumes exactly one valid witness and rejects a corrupt one; an accepted threshold has exactly N revealed children and no unlock-conditions child; accepted unlock conditions consumed exactly SignaturesRequired signatures against at most that many listed keys after the timelock; no witness is left over; complexity limits reject. The Go Verify/Address are tied to the model by recomputing accept/error-class and address bytes on enumerated small trees and random policies.',
}

META['C13'] = {
  'rule': ('(a) chains from genesis on random network parameter sets (block interval 1 s..1 h, fork heights placed so that every era is crossed, Oak height sometimes > 500 so that the pre-Oak window rule fires) '
           'with six timestamp patterns allowed by the median rule: on schedule, constant, as early as the rule allows, multi-day jumps, random around schedule, alternating median/jump; every ApplyHeader transition is recomputed by the model '
           'from the implementation\'s previous state (all PoW fields: Depth, ChildTarget, OakTarget, TotalWork, Difficulty, OakWork, OakTime, height, 11 timestamps); '
           '(b) random states per era within the physical guard (difficulty up to 2^200) incl. negative/tiny OakTime and elapsed times around the pre-Oak clamp boundaries; '
           '(c) ValidateHeader on wrong parent / timestamps around the median / nonce factor / work, recomputed by the model; (d) SufficientlyHeavierThan both ways. '
           'Go-side oracle: era clamps (factor in [0.4,2.5] at 500-block boundaries else unchanged; x1004/1000; D/250; max(D/250,1)), never zero, cumulative work non-decreasing / strictly increasing under v2, floored inverse, the four header conditions, asymmetry; a panic on a rule-abiding sequence is a violation'),
  'trusted_base': [KERNEL, EXTRACT, HARNESS,
                   'math/big Div/Mul/FillBytes semantics as modelled (Euclidean division on non-negative operands; intToTarget saturates at BitLen >= 256, i.e. from 2^255)',
                   'time.Duration as int64 nanoseconds with wrap-around written explicitly (w64), Time.Sub saturating; timestamps with whole seconds',
                   'binary64 comparison of expected/elapsed with 2.5 and 0.4 modelled as exact rational comparison (validated by correspondence at the boundaries, not proved)'],
  'assumptions': ['totality (no panic for every rule-abiding timestamp sequence under the physical guard Difficulty, OakWork, TotalWork < 2^240) is checked by correspondence/oracle on generated chains, not yet a theorem',
                  'equality of the PoW projection of ApplyBlock with ApplyHeader is checked in the ledger correspondence (C09/C01 streams)'],
  'level_text': 'Proved for all states/inputs of the model: final-cut clamp |D\'-D| <= max(D/250,1) and D\' >= 1; v2 clamp D-D/250 <= D\' <= D+D/250 and never zero; Oak-era target within x1004/1000 each way (except the ASIC reset height); pre-Oak target unchanged off the 500-block boundary and otherwise scaled by a ratio in [0.4,2.5]; cumulative work strictly increasing under v2; target/difficulty floored-inverse relation per era; ValidateHeader accepts iff the four conditions; SufficientlyHeavierThan asymmetric. ApplyHeader/ValidateHeader/SufficientlyHeavierThan are tied to the model by recomputing every transition of generated chains crossing all eras. Partial: totality and the binary64 step are correspondence only.',
}

def _gen_obl(root):
    import json, os
    try:
        d = json.load(open(root + '/coq/Gen/schemas.json'))
        return 3 * sum(1 for t in d if not t.get('opaque'))
    except Exception:
        return 0

TRANSLATOR = ('translator /verif/translate (Go, go/parser only): closed statement grammar (e.WriteX / d.ReadX / Write(x[:]) / X.EncodeTo / Encode|DecodeSlice[Cast|Fn] / Encode|DecodePtr[Cast] / pure assignments / for-range), '
              'anything else makes the method opaque and it must then be on the pinned irregular list; its output is validated on every run by decoding and re-encoding Go-produced bytes with the generated shapes')
META['C11'] = {
  'generated_obligations': _gen_obl,
  'rule': ('for each wire type (exported EncodeTo/DecodeFrom pairs of types, consensus, rhp/v2, v3, v4; the rhp/v4 RPC objects and the gateway request/response codecs through the verif hooks: 170+ codecs, regenerated list) 60 (thorough 2500) random values by reflection (full-range integers, boundary and maximal currencies, empty/nil collections, byte strings around and above the 1024-byte buffer of the encoder, all resolution kinds, random policies incl. thresholds of 31-255 children) plus the zero value: '
           'Go decode(encode v) must re-encode to identical bytes, encoding must be deterministic, every proper prefix (all for short encodings, ~150 sampled for long) must fail to decode; '
           'for the types whose shape closure is regular (or recognised: V1Currency, V1SiafundOutput, SpendPolicy; about 150) the extracted model decodes the Go bytes with the *generated decoder shape* and re-encodes with the *generated encoder shape* and must reproduce the bytes, and must reject the same prefixes. '
           'V2TransactionsMultiproof needs proofs valid for one state: generated on synthetic accumulators (round trip + model); consensus.State and ElementAccumulator (irregular layouts) have their encoded length recomputed by the model incl. the pre-genesis state'),
  'trusted_base': [KERNEL, EXTRACT, HARNESS, TRANSLATOR,
                   'Codec/Golden.v: the wire layout of the pinned tree (a golden transcription made from the implementation, regenerated by make_golden.sh only by hand)',
                   'coverage exceptions table in Codec/Oblig.v (fields documented as not transmitted or covered through a delegating conversion)'],
  'assumptions': ['20 irregular codecs (policy, V2Transaction bitmap, resolution union, State, ElementAccumulator, multiproof, rpcResponse, RHP3 instructions, Account ...) are outside the generic theorem: three have recognisers (two with proved round trip), the others are covered by the Go-side round-trip oracle only',
                  'the truncation theorem (every proper prefix fails) is not yet proved generically; it is checked by correspondence and the Go oracle',
                  'value-level normalisations (nil vs empty, sub-second times, revision payout sentinel) are below the byte-level statement: the theorems are about values of the schema universe'],
  'level_text': 'Proved once for the generic codec (u8/u64/bool/fixed/bytes/slice/ptr/sequence/recognised fragments): decode(encode v ++ rest) = (v, rest), hence canonical re-encoding and injectivity (every shape component influences the bytes). Re-checked by the kernel on every run against shapes regenerated from /repo: decoder shape = encoder shape for every type, slices well-formed, layout = pinned layout, irregular set = pinned set, every struct field written (documented exceptions). The translator is validated each run by recoding Go-produced bytes with the generated shapes.',
}
META['C10'] = {
  'generated_obligations': lambda root: _gen_obl(root) // 3,
  'rule': ('decode half: for every wire type 40 (thorough 1500) hostile inputs: random bytes, valid encodings with 1-3 flipped bits, valid encodings with an 8-byte window overwritten by 0xff..ff / 0x7fff..ff (huge length prefixes); DecodeFrom runs under recover with the process memory limit; a panic is a violation; '
           'for the 98 modelled types the accept/reject verdict is recomputed by the extracted generic decoder over the generated shapes. Validation half: ledger streams (see C10 in DESIGN)'),
  'trusted_base': [KERNEL, EXTRACT, HARNESS, TRANSLATOR, 'ulimit -v on the harness process: an unchecked allocation shows up as a crash of the run'],
  'assumptions': ['stack depth and the Go allocator are observed, not modelled', 'UnmarshalJSON/UnmarshalText entry points are exercised under C20'],
  'level_text': 'Proved: the generic decoder has no panic site (total into option) and a decoded slice/byte string never has more elements than input bytes (length prefix checked against bytes remaining), with every generated shape well-formed (re-checked each run). Go decoders are tied to it by verdict correspondence on hostile inputs under recover and a memory limit. Partial until the ledger model adds the validation half.',
}

LEDGER_TB = [KERNEL, EXTRACT, HARNESS, BLAKE,
             'IDs, sighashes, transaction weights, the header verdict and the block commitment check are supplied with each block, computed by the implementation\'s own functions (what they bind is C12; header validation is C13); Ed25519 and SHA-256 are oracle tables filled from the real functions',
             'membership is decided by the model against its own element store (the true forest\'s leaf list); "the attached proof is the element\'s current proof" is told by the harness from its store (the accumulator algorithms themselves are C04/C05)',
             'verif hooks /repo/consensus/verif_hooks.go (leaf constructors + containsLeaf) for the Go-side store-verifies oracle']
LEDGER_RULE = ('chains built on the real implementation on randomised networks (maturity delay, tax/storage-proof/foundation fork heights; v1-only, long mixed window, v2-only and v2-from-the-start eras), 18-31 steps each, '
               'honest blocks mixing v1 payments (whole and partial covered fields, multi-input), contract formation with real file data, revisions, storage proofs from an independent naive prover, siafund transfers with claims, Foundation updates, '
               'expiring contracts; v2 payments under pubkey/threshold/hash-lock/time-lock/legacy policies, ephemeral spends, siafund transfers, contract formation, revisions incl. key rotation, renewals, storage proofs with chain-index elements, expirations, attestations, Foundation updates; '
               'random reverts of depth 1-3 followed by different continuations. Every block (and every adversarial variant, validate-only) is recomputed by the extracted ledger model: verdict and error class, every element diff with its leaf index, the siafund pool, Foundation addresses, leaf count, and the ledger sums over the model\'s own store. ')
def _ledger(pid, focus, level_text, extra_assume):
    return {
      'rule': LEDGER_RULE + focus,
      'trusted_base': LEDGER_TB,
      'assumptions': ['the theorems are about single transactions / blocks of the model (what acceptance guarantees); the statement over whole histories is carried by recomputing every block of the generated histories and by the Go-side oracle over the exported diffs'] + extra_assume,
      'level_text': level_text,
      'harness_args': [],
    }
META['C01'] = _ledger('C01', 'C01 focus: outputs/siafunds inflated by one unit, wrong contract tax, miner payout off by one; oracle after every applied block: unspent outputs + unresolved contracts + unclaimed pool + forfeited = genesis + scheduled subsidies, siafunds = 10000, every claim = floor((pool-start)/10000)*value, payout = reward + fees.',
  'Proved on the model: an accepted block pays miners exactly reward + v1 fees + v2 fees; a claim is floor((pool - claim start)/10000) * value and is defined whenever claim start <= pool; accepted v2 revisions keep the contract total; the value flow of every accepted transaction balances: for v2, inputs spent + contract value released = outputs + value locked in new contracts and renewals + their tax + fee + resolution payouts + forfeited host value; for v1, spent values (as validation resolves the parents) = outputs + contract payouts + fees. The implementation is tied to the model by recomputing every block of generated chains (verdicts, diffs, pool, ledger sums over the model\'s own store); the conservation equation over histories is evaluated by the model\'s sums and an independent Go-side oracle after every block.',
  ['conservation over whole histories is not yet a Coq theorem (it is computed by the model and compared)'])
META['C02'] = _ledger('C02', 'C02 focus: the same input twice in a transaction (re-signed), in two transactions, v1+v2, an ephemeral output spent twice, revise twice, prove twice, revise after proof, resolve twice, and across blocks: spent outputs / resolved contracts presented again with their maintained proofs (v2) or in the supplement (v1).',
  'Proved on the model: an accepted v2 transaction spends pairwise distinct outputs, none used earlier in the block, each either ephemeral or the current unspent leaf of the store; a leaf marked spent is never accepted again whatever proof accompanies it; what is accepted is exactly the current unspent leaf. Tied to the code by recomputing every duplicated-use variant (error class included).', [])
META['C03'] = _ledger('C03', 'C03 focus: after signing: output address changed, signature corrupted / dropped / duplicated, signed by another key, substituted unlock conditions or policy, preimage corrupted, contract host signature corrupted, contract key substituted, revision signed by the new instead of the current key, renewal signed by / changing other keys, attestation altered, Foundation update without the management input; claim address redirected (known finding F8).',
  'Proved on the model: every accepted v2 input reveals a policy hashing to the parent address that is satisfied at the parent height/median time; every accepted contract is signed by its own keys; every accepted revision is signed by the keys of the contract as it currently stands. Tied to the code by recomputing every single-point tampering variant with real Ed25519. Partial: unforgeability is an oracle; which content each sighash binds is C12.', ['known finding F8 (ClaimAddress not covered) is reported as KNOWN-FINDING'])
META['C06'] = _ledger('C06', 'C06 focus: after every revert the store obtained by applying the inverse of RevertUpdate\'s diffs and UpdateElementProof must equal the store before the block (ids, fields, leaf index, proofs), every element must verify against the parent state, re-applying gives byte-identical state and diffs; reorgs of depth 1-3 with different continuations.',
  'Proved on the model: the diff of a spend records exactly the element and leaf index needed to restore the leaf list; created leaves are appended and can be truncated; re-applying is a function of (state, block). The implementation\'s RevertBlock (diffs, proof truncation, leaf restoration) is tied by the store-inverse oracle after every revert and by recomputing every state after reverts.', ['RevertBlock\'s diff computation is not modelled separately: a revert in the model returns to the previous state'])
META['C07'] = _ledger('C07', 'C07 focus: revisions changing totals / not raising the revision number / raising missed host value / altering collateral / lowering capacity; storage proofs with corrupted leaf, corrupted hash, too short / too long, proof index of the wrong height; renewal payout mismatch; oracle: every resolution creates exactly the outputs of the latest revision (valid / missed / final) with maturity = height + delay.',
  'Proved on the model: the v2 revision invariants (total, revision number, missed host value, collateral, capacity, heights, current keys), well-formedness of new contracts, the challenged leaf index is always in range. v1/v2 storage-proof verification (three leaf eras) and payouts are executable in the model and recomputed for every proof of generated chains incl. corrupted ones.', ['storage-proof completeness/soundness against the plain tree is exercised, not yet a theorem'])
META['C08'] = _ledger('C08', 'C08 focus: at every height, for every output/contract near a bound: spend at maturity and one block earlier (v1 and v2), revise at window start-1/0/+1, prove in the first block after window start and before it, v2 revise at proof height-1/0/+1, prove at proof height 0/+1, expire at expiration 0/+1, v1 transaction at the require height-1/0, v2 transaction before the allow height.',
  'Proved on the model: whatever is accepted satisfies the height rule (v1 below the require height, v2 from the allow height, inputs mature, contract and revision proof heights not in the past, policy above/after compare >= parent height / strictly after median). That the bound itself is accepted (not late) is pinned by the boundary probes at bound-1/bound/bound+1 recomputed by the model.', [])
META['C09'] = _ledger('C09', 'C09 focus: block, supplement and state are encoded before and after every ValidateBlock/ApplyBlock call and must be byte-identical; ApplyBlock twice must give identical state and diffs; ApplyHeader must agree with ApplyBlock on the PoW state.',
  'Proved on the model: block validation is the fold of per-transaction validate-then-apply; a spend records the presented element unchanged. Determinism is definitional in the model. The implementation\'s ownership discipline (in-place proof updates only on copies) is tied by comparing inputs before/after every call on generated chains. Partial: goroutine schedules / race detector runs are not part of this check yet.', ['concurrency is not exercised by this check'])
META['C09']['race'] = True
META['C09']['rule'] += ' The harness binary for this check is built with -race: 2-8 goroutines call ValidateBlock/ApplyBlock/RevertBlock on shared inputs for every third block and must agree with the sequential result; a reported data race aborts the run. Copy-disjointness: for 300 (5000) random values, everything reachable from V2Transaction.DeepCopy() / element Copy() results is overwritten and the original must re-encode identically.'
META['C09']['level_text'] = META['C09']['level_text'].replace('Partial: goroutine schedules / race detector runs are not part of this check yet.', 'Partial: goroutine schedules are those the Go runtime produces under the race detector, not enumerated.')
META['C09']['assumptions'] = [a for a in META['C09']['assumptions'] if 'concurrency is not exercised' not in a] + ['the Go memory model and scheduler are exercised (race detector), not modelled']
c10 = META['C10']
c10['rule'] += ' | validation half: ' + LEDGER_RULE + 'C10 focus: covered fields indexing nonexistent fields (incl. 2^63), fees/outputs summing past 2^128, maximal v2 fee; every ValidateBlock/ApplyBlock/RevertBlock runs under recover: a panic is a violation.'
c10['trusted_base'] = c10['trusted_base'] + LEDGER_TB
c10['level_text'] += ' Validation half: every Go panic site of validation/application is an explicit Panic in the ledger model (checked Currency arithmetic, slice indexing through the shared elements map); the model recomputes the verdict of structure-aware adversarial blocks, which is how the miner-fee overflow panic (fixed: 67407a9) was found.'

META['C12'] = {
  'rule': ('(a) single-field mutation oracle by reflection: for 60 (thorough 3000) random fully-populated V2Transaction / Transaction / V2FileContract / V2FileContractRenewal / Attestation values, every reachable scalar location is changed in turn and ID(), FullHash(), InputSigHash, WholeSigHash, PartialSigHash (covering input 0 / output 0), ContractSigHash, RenewalSigHash, AttestationSigHash are recomputed: '
           'locations classified effect-bearing (everything but signatures, SatisfiedPolicy witnesses, parent element content other than its ID, accumulator Merkle proofs) must change the ID and signature hash, the others must not; the signature hash must change exactly when the ID does; FullHash changes for every location; '
           '(b) replay prefix: the same v1 transaction with an input hashed at heights either side of the ASIC, Foundation and v2 fork heights must differ exactly across eras; '
           '(c) every derived ID (siacoin/siafund output, v2 contract, attestation, renter/host/renewal output, v2 claim, miner output) is recomputed by the extracted model as H("sia/"+name+"|"+parent+le64(index)) and all derived IDs over kinds/parents/indices are pairwise distinct; '
           '(d) the translator re-extracts, on every run, which paths V2TransactionSemantics.EncodeTo writes and which it blanks, and which fields txnSansSigs writes; the kernel compares them with the pinned tables'),
  'trusted_base': [KERNEL, EXTRACT, HARNESS, BLAKE, TRANSLATOR,
                   'pinned tables semantics_written / semantics_blanked / distinguishers in Codec/Effects.v (transcribed from the property text: what is effect-bearing)',
                   'the classification of reflection paths in harness/c12.go (v2Class) mirrors those tables'],
  'assumptions': ['BLAKE2b collision resistance appears as the Collision disjunct of every theorem',
                  'the storage proof\'s own Leaf/Proof (file data proof) are treated as bound by the ID, as implemented; only the accumulator proof of the proof-index element is a stripped "Merkle proof"',
                  'known finding F8: SiafundInput.ClaimAddress is not written by the semantic encoding (reported as KNOWN-FINDING)',
                  'block ID / commitment binding is exercised by the ledger stream variant c12.commitment-stale and by C13 header checks'],
  'level_text': 'Proved: an identifier H(prefix ++ enc x) with injective enc determines x up to an exhibited collision and ignores everything outside the projection; the self-delimiting "sia/<name>|" framing makes derived IDs of different kinds, parents or positions distinct up to collision; all distinguishers of the tree are bar-free and pairwise distinct (kernel-evaluated); the path set written/blanked by the v2 semantic encoding and the v1 ID pre-image equal the pinned effect-bearing tables (kernel-evaluated against /repo on every run). Injectivity of the field encodings is C11. The implementation is tied by recomputing derived IDs in the model and by the exhaustive single-field mutation oracle.',
}

META['C18'] = {
  'rule': ('16 (thorough 300) chains built on the real implementation (mixed and v2-only eras, reverts), every honest block with v2 transactions (payments under all policy kinds, ephemeral parents, siafund claims, contract formation/revision/renewal/expiry, storage proofs with chain-index elements): '
           'the whole v2 transaction set, three random sub-sets in random order (sometimes with a repeated transaction, i.e. duplicate leaves) and the block itself are sent through V2TransactionsMultiproof / V2Block EncodeTo+DecodeFrom; '
           'oracle: every transaction re-encodes (individual proofs included) identically, decoder stops exactly at the end, block ID / commitment / ValidateBlock verdict unchanged, the encoder does not change its input, decoded proofs do not share memory; '
           'model: the multiproof hashes, the inferred leaf count and multiproofSize are recomputed by the extracted model from the individual proofs (leaf hashes from the consensus package, not from the copy in package types), and all individual proofs are recomputed from leaf hashes + multiproof; '
           'outlines: for each block four omitted subsets (none, all, random x2): OutlineBlock ID = block ID before and after the outline codec (through RPCRelayV2BlockOutline), Complete with a shuffled pool of some/all omitted transactions plus unrelated extras gives exactly the original block or exactly the hashes omitted-and-not-offered, also recomputed by the model'),
  'trusted_base': [KERNEL, EXTRACT, HARNESS, BLAKE,
                   'verif hooks: consensus/verif_hooks.go (leaf constructors), gateway/verif_hooks.go (RPC object codec wrappers)',
                   'forEachElementLeaf order and the proofless-prefix layout are re-derived in the harness (harness/c18.go mpLeaves, splitSetEncoding) and checked against the bytes'],
  'assumptions': ['forEachElementLeaf (which elements of which transactions are leaves, in which order) is re-derived in the harness and tied by correspondence',
                  'sort.Search on an index-sorted slice is modelled as the longest prefix with index < mid (equal on sorted input)',
                  'in-place writes into preallocated proofs are modelled as building the proof bottom-up (equal when the allocated length is the tree height, which the codec guarantees)',
                  'hash collisions appear as the Collision disjunct (outline completion); the multiproof theorem needs none'],
  'level_text': 'Proved for every perfect tree of any height at any base and every non-empty index-sorted leaf list (duplicates allowed) whose proofs are sibling paths of that tree: computeMultiproof does not panic, yields exactly multiproofSize hashes, and expandMultiproof from the leaf hashes alone restores every individual proof bit-for-bit, recomputes the root and consumes exactly the multiproof. Proved for outlines over arbitrary transaction/hash types: the outline has the block\'s hashes whatever is omitted (same commitment and ID), Complete reports exactly omitted-and-not-offered, and any pool containing the omitted transactions (any order/extras) restores exactly the block, up to an exhibited hash collision. The implementation is tied by recomputing multiproofs, leaf counts, sizes, restored proofs and completion results on generated chains. Also proved: the whole codec core over all trees of one state at once (grouping by proof length, sorting, tree bases; leaves in any order, duplicates allowed): computeMultiproof does not panic, has exactly multiproofSize hashes, and expansion over leaves that agree with the originals only in index, leaf hash and proof length restores every proof; the restored proofs are exactly the ones that verify (proofRoot = root); the encoder\'s leaf-count inference lets the decoder accept every leaf and recover exactly its proof length. Remaining correspondence-only: the traversal order of elements inside transactions.',
}

META['C17'] = {
  'rule': ('(a) 150 (thorough 6000) sequences NewContract -> 0..13 revision constructors (append incl. maximal batches, free, sector roots, fund/replenish with exact-boundary amounts: everything / one more / one less) -> renew | refresh partial | refresh full (allowance at the boundaries of the remaining renter value) -> further revisions -> second renewal, under random price tables incl. zero and near-maximal prices: '
           'every call is recomputed by the extracted model (all numeric contract fields, the usage breakdown, error class, and where the implementation panics), the cost functions too; '
           '100 (3000) consensus-valid but unreachable contracts (host value below total collateral) check that model and code panic in the same places; '
           'Go-side oracle: totals kept, renter charged exactly RenterCost, exactly RiskedCollateral risked, total collateral untouched, exact split into final outputs + rollover, rollover <= new contract cost, renter cost + host cost + rollover = new contract + tax + fee; '
           '(b) 300 (20000) v1-era formations/renewals through rhp/v2 and rhp/v3 builders: payout = outputs + FileContractTax(payout), valid sum = missed sum, taxAdjustedPayout recomputed by the model; PayByContract boundaries; '
           '(c) 6 (120) real chains: NewContract / revisions / renewals / refreshes signed with real keys and funded with exactly renter cost + host cost are submitted to consensus.ValidateV2Transaction and mined'),
  'trusted_base': [KERNEL, EXTRACT, HARNESS,
                   'the consensus rules the theorems refer to are those of the ledger model (Ledger/Validate.v validate_contract / validate_revision / validate_renewal), tied to consensus/validation.go by the C01-C10 correspondence',
                   'Currency arithmetic as checked arithmetic over Z with explicit panics (exactness of the 128-bit implementation is C15)'],
  'assumptions': ['physical guards stated in the theorems: appended sectors keep capacity below 2^64, freed sectors exist (the request validation guarantees it), proof height + 144 < 2^64, the funds involved fit a Currency (total + tax + fee < 2^128)',
                  'request validation (rhp/v4/validation.go) appears only through these hypotheses; signatures and price-table expiry are outside the model',
                  'rhp/v2 and rhp/v3 host payout arithmetic (CalculateHostPayouts, RenewalCosts) is covered by the Go-side equation oracle and the tax inversion theorem, not modelled field by field'],
  'level_text': 'Proved for every reachable contract (missed <= total collateral <= host value) and all parameters: PayWithContract keeps the total, charges the renter exactly RenterCost, risks exactly RiskedCollateral, never raises the missed host value, leaves total collateral alone, and with a computable cost never panics: it refuses exactly when funds or collateral do not suffice; each revision constructor\'s result, once signed, passes every numeric consensus revision rule (validate_revision reduces to the signature check under the current keys); over every history of revision requests value is conserved and the revision number cannot wrap before 2^64 requests; NewContract passes the contract rules and ContractCost funds contract + tax + fee exactly; RenewContract / RefreshPartial / RefreshFull split the old value exactly into final outputs and rollover, never roll over more than the new contract costs, pass every numeric renewal rule, and RenewalCost / RefreshCost never underflow and satisfy renter + host + rollover = new contract + tax + fee; taxAdjustedPayout inverts the v1 tax equation for every target. Tied to rhp/v4 by recomputing every constructor call of generated sequences and to consensus by end-to-end chains.',
}

META['C19'] = {
  'generated_obligations': lambda root: 31,
  'rule': ('(a) every rhp/v4 RPC object (45, generated list): for the 30 with crisp protocol limits the object at exactly the limits, one below, half, one above and far above (MaxSectorBatchSize = 262144 roots, MaxAccountBatchSize = 1000 entries, proof lengths), otherwise random objects, is written with WriteRequest/WriteResponse and read from a stream that continues with garbage through a byte-counting reader: '
           'within the limits it must fit the receiver\'s limit, be accepted and re-encode identically; in every case the receiver consumes at most its limit and never panics; '
           'the extracted model recomputes, from the regenerated shapes, the exact size of the maximal object and the receiver\'s verdict on each stream (ReadRequest = decode of the first maxLen bytes; ReadResponse = flag byte + error | object within error maxLen + maxLen); '
           'error responses with descriptions of 0..1014 bytes are read through every response type and must come back as that error; '
           '(b) RHP2 transport over an in-memory pipe: handshake, 1-4 responses of boundary sizes (0, 15/16/17, 4095/4096, 5008/5024, 70000), read as objects or as raw streaming responses with VerifyTag; in half of the sessions one bit of the host\'s byte stream after the handshake is flipped: every message delivered must be one that was sent, in order, and the flip must be detected; '
           '(c) RHP3 transport (handshake, multiplexed stream, request id + request, several responses), same tamper rule; (d) gateway: handshake over loopback TCP with equal / different genesis / equal unique ID, an RPC with up to 500 headers, and the declared maximal sizes of the gateway RPC objects against max*Len'),
  'trusted_base': [KERNEL, EXTRACT, HARNESS, TRANSLATOR,
                   'coq/Gen/Limits.v is written on every run by the harness from the implementation\'s own maxLen() methods and constants (verif hook rhp/v4/verif_hooks.go)',
                   'the table rpc_limits in Codec/Framing.v (which protocol limit bounds which collection; transcribed from rhp/v4/validation.go and rhp.go) and its mirror in harness/c19.go',
                   'ChaCha20-Poly1305, X25519, the mux package and net.Conn are exercised, not modelled'],
  'assumptions': ['objects without a crisp protocol limit (contract formation / renewal / refresh messages carrying transaction sets, host settings, the free-sectors proof) have no size obligation; they are round-tripped with random values only',
                  'transports (RHP2 AEAD framing, RHP3 streams, gateway handshake) are decided by the Go-side oracle under single-bit tampering; no Coq model of the ciphers',
                  'an RPCError whose description exceeds ERRDESC bytes is outside the statement (none of the implementation\'s own errors comes close)'],
  'level_text': 'Proved for the generic codec: an encoding under per-collection limits is at most maxsize bytes; a receiver reading through a limit of maxLen bytes decodes every message that fits to the same object whatever follows it, never sees more than maxLen bytes and its result is independent of anything beyond them; a response (flag byte + error | object) that fits is delivered as exactly what was sent, in particular an error as that error. Re-checked by the kernel on every run against shapes regenerated from rhp/v4/encoding.go and the implementation\'s own maxLen() values: for each of the 30 RPC objects with crisp protocol limits the maximal size under those limits is within its receiver\'s limit, and every error with a description of up to 1014 bytes fits every response limit. The implementation is tied by recomputing exact maximal sizes and per-stream verdicts. Partial: transports are oracle-only.',
}

META['C20'] = {
  'rule': ('(a) the eight fixed-size hex identifier types: own text form, one/two characters shorter or longer, upper case, 0x-prefixed, empty, characters outside the alphabet: accept/reject and value recomputed by the model (unmarshalHex), a panic or acceptance as a different value is a violation; '
           '(b) 30 (1200) random addresses: String/Parse round trip and, for each of the 76 positions, 2 (6) replacement characters (hex digits of both cases and non-hex): Go must reject or return the same address; renderings and a sample of the altered strings recomputed by the model (checksum through BLAKE2b); length / prefix corruptions; '
           '(c) 400 (20000) currencies (zero, max, small, powers of ten +-1, few significant digits, random widths): String(), ExactString() and JSON round trip; String()/ExactString() recomputed by the model; 20 mutated strings each (spaces, signs, doubled dots, wrong units, moved decimal points, sub-unit precision) whose ParseCurrency verdict and value are recomputed by the model; '
           '(d) JSON round trip (marshal, unmarshal, marshal again; binary encoding of the value read back equal) of every wire type with a JSON form plus Currency, Block, Network, the four element diffs, Usage, ProtocolVersion, HostSettings: 25 (800) reflection-filled values each (valid UTF-8, years 0-9999) incl. the zero value; '
           '(e) 300 (10000) random policies through String/ParseSpendPolicy and JSON, their String() recomputed by the model and ~19 mutated strings each (spaces, doubled parentheses, dropped / inserted characters, upper case, signs, leading zeros, trailing commas) whose parse verdict and re-rendered result are recomputed by the model; specifiers incl. non-alphanumeric; public keys, chain indices, unlock keys, protocol versions, accounts with wrong prefix / length; '
           '(f) 6 (120) generated chains: every ApplyUpdate and RevertUpdate goes through JSON and must refresh the proof of every tracked element exactly as the original does'),
  'trusted_base': [KERNEL, EXTRACT, HARNESS, BLAKE,
                   'encoding/json, encoding/hex, strconv and math/big as used by the marshalers are exercised, not modelled; the model transcribes unmarshalHex, Address.String/UnmarshalText, Currency.String/ExactString/ParseCurrency'],
  'assumptions': ['ParseCurrency accepts more than the modelled grammar (exponents, fractions: big.Rat syntax); the model reports such inputs as outside its grammar and they are not compared',
                  'the address theorem exhibits a collision of the 6-byte checksum as its alternative (a 48-bit truncation of BLAKE2b cannot be collision-free in the absolute sense)',
                  'policy JSON forms, specifier quoting (strconv.Quote), JSON of transactions, blocks, elements, states and updates are decided by the Go-side round-trip oracle only; known finding F6 (a legacy unlock-condition key whose algorithm specifier contains delimiter characters prints a string the parser refuses) is reported as KNOWN-FINDING'],
  'level_text': 'Proved: hex identifiers: the rendering parses back, and whatever is accepted for a k-byte identifier has exactly 2k characters and is the rendering of the value returned up to the case of hex letters (so wrong length, prefix or alphabet is rejected, never accepted as another value); addresses: round trip, every accepted string is the canonical rendering of the address returned (up to case), and replacing any single character of an address string is rejected, or returns the same address, or exhibits two addresses with equal checksums; currencies: for every value below 2^128 both String() (unit suffix, trimmed fraction) and ExactString() parse back to exactly that value. The implementation is tied by recomputing renderings, verdicts and parsed values. policies: for every well-formed policy of any nesting and width whose key algorithm specifiers print unquoted, ParseSpendPolicy(String()) is that policy (parser transcribed with its whitespace trimming, sticky errors, trailing-comma tolerance and integer widths; tied by re-parsing ~5000 mutated policy strings per run). Partial: JSON forms and quoted specifiers are oracle-only.',
}

NOT_YET = {}
