"""Per-property metadata used by checklib: what is trusted, what the cases are."""

KERNEL = 'Coq 8.16.1 kernel (coqc; vm_compute used, native_compute not used); coqchk re-check in the thorough tier'
EXTRACT = ('extraction with ExtrOcamlBasic only (Extract Inductive bool/option/unit/list/prod/sumbool/sumor, '
           'Extract Inlined Constant andb/orb/negb/fst/snd); no Extract Constant of our own; OCaml 4.13.1; ocaml/driver.ml line protocol')
HARNESS = 'Go correspondence harness /verif/harness (generators, canonicalisation, comparison, property oracle) built against /repo with -tags verif'
BLAKE = 'BLAKE2b-256: arbitrary function H in every theorem; native ocaml/blake2b.ml passed as H to the extracted model, validated against Go on each run'

META = {
 'C15': {
  'rule': ('all ordered pairs of a 65-value boundary set (0, 2^k±2 for k in 1,31..33,63..65,95,96,126..128, sqrt-scale and decimal-unit values) '
           'times every operation (Add/Sub/Mul/Mul64/Div/Div64/Cmp, flag and panic forms), then random pairs with per-limb magnitudes and '
           'directed near-overflow/near-equal operands; each case = implementation result recomputed by the extracted Coq model; '
           'non-trivial = overflow/underflow/panic flagged or a high limb involved, counted distinct by hash of the case line; '
           'text forms (String, ExactString, %d, %v, JSON, ParseCurrency) checked by the Go-side oracle against math/big'),
  'trusted_base': [KERNEL, EXTRACT, HARNESS,
                   'math/bits primitives Add64/Sub64/Mul64/Div64/LeadingZeros64 modelled over Z as documented (Currency/Model.v)',
                   'math/big as independent oracle; big.Int/big.Rat text parsing is not modelled (text forms are correspondence/oracle only)'],
  'assumptions': ['limbs are in [0,2^64) (wfc); Go uint64 wrap written explicitly as mod 2^64',
                  'quoRem (128/128 division) and the text forms are validated by correspondence and the math/big oracle, not yet by theorem'],
  'mismatch_is_input': True,
  'level_text': 'Exactness of Add/Sub/Mul/Mul64/Cmp (flag and panicking forms) and of division by a 64-bit value is proved in Coq for all 128-bit operands; the Go code is tied to the model by recomputing every generated case with the extracted model; 128-by-128 division and the text forms are covered by correspondence and a math/big oracle only (stated as partial in the evidence).',
 },
}

NOT_YET = {}
