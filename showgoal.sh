#!/bin/bash
# usage: showgoal.sh <file.v> <line>  -- prints the goal just before <line> (scratch copy; nothing is admitted in the tree)
f=$1; n=$2
d=$(mktemp -d /tmp/sg.XXXX)
head -n $((n-1)) "$f" > $d/T.v
echo "Show. Abort." >> $d/T.v
(cd /verif/coq && timeout 120 coqc -Q . Sia $d/T.v 2>&1 | tail -${3:-60})
rm -rf $d
